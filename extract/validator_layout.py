"""Translator for the layout arithmetic of sbeppc's schema validator
(`sbeppc/src/sbepp/sbeppc/sbe_schema_validator.hpp`):

  validate_element_offset(const T& element, offset_t& current_offset)
  validate_field_offset(const sbe::field& f, offset_t& current_offset)
  validate_block_length(const MessageOrGroup& level, block_length_t actual_block_length)
  validate_encoding(const sbe::composite& c)          -- accumulator skeleton of the element loop
  validate_members(const MessageOrGroup& level)       -- accumulator skeleton of the field loop

Every run re-reads the header, finds the member functions (declaration scanner),
parses their bodies (statement parser -> expression parser -> AST), lowers the AST
to a small IR over *locations* (locals, `entity.member`, `context-of-entity.member`
reached through `ctx_manager->get/create(entity)`, by-reference parameters), slices
the IR to what the layout depends on, and renders the slice as pure Lean functions
(`lean/Sbepp/Extracted/ValidatorLayout.lean`, namespace
`Sbepp.Extracted.ValidatorLayout`, core Lean only).  `Lemmas/ValidatorLayoutTie.lean`
proves the generated functions equal to the step functions of the hand model
(`Schema/Resolve.lean`: `offsetStep`, `blockLengthStep`, ...).

What is a function of the text and what is fixed here
  * Nothing is keyed to the text of a body.  A changed operator, operand, constant,
    callee, argument order, statement order, condition, a dropped/added statement
    that the layout depends on changes the generated term.
  * The *slice*: the layout values are the unsigned scalar parameters (by value or
    by reference) and the unsigned locals passed by reference to a translated
    function ("accumulators") and everything computed from them.  A statement is
    kept when it writes a location the layout values flow into, or a location a
    kept statement reads, when it is a `return`, a call of a translated function
    that receives an accumulator, a `throw_error` under a condition that reads
    layout values, or a compound statement containing a kept one.  Everything else
    ("other rules": names, versions, presence rules, header values, the recursion
    into nested groups ...) is not translated; it is listed in the report
    (`other_rules`).  The generated functions therefore say: *if* the other rules
    let the validator get this far, these are the stored offsets / sizes / block
    lengths, or this `throw_error`.
  * A call of an untranslated function whose result a kept statement reads is an
    *oracle*: an input of the generated function named after the callee (per loop
    element: a field of the generated per-element structure).

Rendering
  * one Lean `def` per function over explicit inputs: what the function reads of its entities
    (`entity.member`, members of the entity's context, oracles), then its unsigned parameters; result =
    `Except Thrown (written context members ..., by-reference parameters ...)`.  A context member that is not
    written on every path is returned as `Option` (none = not written).
  * statements are rendered in continuation-passing style: what follows an `if` is rendered in both branches
    (so that "the optional is engaged here" is known where `*o` occurs); an `if` whose branches only assign is
    rendered as `let (a, b) := if c then (..) else (..)`.
  * a range-`for` becomes a structurally recursive `<fn>.loop` over a list of `<fn>.Item` (the per-element
    inputs), carrying the locals the body assigns; it returns per element what was stored for it.
  * the context of a loop element must exist before it is read: `ctx_manager->create(e)` or a call of
    `validate_encoding(e)` (table `CREATES_CONTEXT`) earlier in the loop body; otherwise the function fails
    ("validate, then lay out").
  * `validate_block_length` must end with `validate_header_value(level, "blockLength", <the stored value>)`
    (a rule of its own, C08 `headerValueOutOfRange`); the translator asserts it (`report['continuations']`).

C++ typing assumed (read from the sources where possible)
  * `offset_t`, `block_length_t`: read from `using X = std::uintN_t;` in sbepp.hpp;
    `std::size_t`: 64-bit unsigned; `std::numeric_limits<U>::max()` = 2^N - 1 of that width.  Values of these types are `Nat` below their
    bound; `+`, `+=`, `*`, `-` wrap modulo 2^N of the converted operand type
    (`wrapN`); assignments between equal widths do not convert.
  * `std::optional<U>`: `Option Nat`; `if(o)` / `o.has_value()` test engagement,
    `*o` / `o.value()` is translated only where engagement is known from an enclosing
    test (otherwise the function is reported as failed: possible UB);
    `o < v`, `o == v`, ... between an optional and a value follow
    [optional.comp.with.t] (a disengaged optional is less than every value).
  * member types are read from the struct definitions of `sbe.hpp` and
    `context_manager.hpp`; for a template parameter the member must have one type
    in all structs that have it (for written context members: one scalar width).
  * `enum class field_presence`: enumerators read from sbepp.hpp; `T x{};` of an
    enum is its first enumerator, of an unsigned type 0.
  * `std::visit(lambda, variant)` applies the lambda to the entity held; a range-`for`
    visits the elements in order.
  * `throw_error(fmt, location, args...)` does not return; it is rendered as
    `.error (tag, [args])`, tag = the words of `fmt` after the leading "{}: " up to
    the first placeholder or parenthesis.
"""
import hashlib
import os
import re

from . import cxx
from .cxx import ExtractError
from .kernels import write_if_changed

HPP = 'sbeppc/src/sbepp/sbeppc/sbe_schema_validator.hpp'
SBE_HPP = 'sbeppc/src/sbepp/sbeppc/sbe.hpp'
CTX_HPP = 'sbeppc/src/sbepp/sbeppc/context_manager.hpp'
SBEPP_HPP = 'sbepp/src/sbepp/sbepp.hpp'
CLASS = 'sbe_schema_validator'
OUT = 'ValidatorLayout.lean'

# the member functions translated, in dependency order: (C++ name, selector on the first parameter type or None, Lean name)
TARGETS = [
    ('validate_element_offset', None, 'validate_element_offset'),
    ('validate_field_offset', None, 'validate_field_offset'),
    ('validate_block_length', None, 'validate_block_length'),
    ('validate_encoding', 'sbe::composite', 'validate_encoding_composite'),
    ('validate_members', None, 'validate_members'),
]
# binding of the context manager: `ctx_manager->get(e)` / `->create(e)` denote the context object of entity `e`
CTX_MANAGER = 'ctx_manager'
CTX_ACCESS = ('get', 'create')
THROW = 'throw_error'
# calls that create the context of the entity they are given (besides `ctx_manager->create(e)` itself)
CREATES_CONTEXT = ('validate_encoding',)

# ------------------------------------------------------------------ tokens

TOK = re.compile(r'''
    (?P<ws>\s+)
  | (?P<num>0[xX][0-9a-fA-F']+[uUlL]*|\d[\d']*[uUlL]*)
  | (?P<chr>'(?:[^'\\]|\\.)+')
  | (?P<str>"(?:[^"\\]|\\.)*")
  | (?P<id>[A-Za-z_][A-Za-z_0-9]*)
  | (?P<op><<=|>>=|<=>|->|\+\+|--|<<|>>|<=|>=|==|!=|&&|\|\||\+=|-=|\*=|/=|%=|&=|\|=|\^=|::|[-+*/%<>=!~&|^?:;,.(){}\[\]\#])
''', re.X)


def tokenize(text, base_line=1):
    toks = []
    i = 0
    line = base_line
    while i < len(text):
        m = TOK.match(text, i)
        if not m:
            raise ExtractError('cannot tokenize at: %r' % text[i:i + 30])
        k = m.lastgroup
        if k != 'ws':
            toks.append((k, m.group(k), line))
        line += text.count('\n', i, m.end())
        i = m.end()
    return toks


def int_value(tok):
    m = re.fullmatch(r"(0[xX][0-9a-fA-F']+|\d[\d']*)([uUlL]*)", tok)
    digits = m.group(1).replace("'", '')
    if len(digits) > 1 and digits[0] == '0' and digits[1] not in 'xX':
        return int(digits, 8)
    return int(digits, 0)


def str_value(tok):
    body = tok[1:-1]
    out = []
    i = 0
    esc = {'n': '\n', 't': '\t', '\\': '\\', '"': '"', "'": "'", '0': '\0'}
    while i < len(body):
        if body[i] == '\\' and i + 1 < len(body):
            if body[i + 1] not in esc:
                raise ExtractError('escape \\%s in a string literal' % body[i + 1])
            out.append(esc[body[i + 1]])
            i += 2
        else:
            out.append(body[i])
            i += 1
    return ''.join(out)


BIN = {
    '||': 1, '&&': 2, '|': 3, '^': 4, '&': 5, '==': 6, '!=': 6,
    '<': 7, '<=': 7, '>': 7, '>=': 7, '<<': 8, '>>': 8, '+': 9, '-': 9, '*': 10, '/': 10, '%': 10,
}
ASSIGN_OPS = ('=', '+=', '-=', '*=', '/=', '%=', '&=', '|=', '^=', '<<=', '>>=')


def spell(toks):
    out = ''
    for tok in toks:
        v = tok[1]
        if out and (out[-1].isalnum() or out[-1] == '_') and (v[0].isalnum() or v[0] == '_'):
            out += ' '
        out += v
    return out


class Cursor:
    def __init__(self, toks, i=0):
        self.t = toks
        self.i = i

    def peek(self, k=0):
        j = self.i + k
        return self.t[j] if j < len(self.t) else ('eof', '', -1)

    def next(self):
        tok = self.peek()
        self.i += 1
        return tok

    def at(self, val, k=0):
        p = self.peek(k)
        return p[1] == val and p[0] in ('op', 'id')

    def expect(self, val):
        tok = self.next()
        if tok[1] != val or tok[0] not in ('op', 'id'):
            raise ExtractError('expected %r, got %r near: %s' % (
                val, tok[1], ' '.join(x[1] for x in self.t[max(0, self.i - 8):self.i + 4])))
        return tok

    def skip_balanced(self, open_c, close_c):
        self.expect(open_c)
        depth = 1
        out = []
        while True:
            tok = self.next()
            if tok[0] == 'eof':
                raise ExtractError('unbalanced %s' % open_c)
            if tok[0] == 'op' and tok[1] == open_c:
                depth += 1
            elif tok[0] == 'op' and tok[1] == close_c:
                depth -= 1
                if depth == 0:
                    return out
            elif tok[0] == 'op' and tok[1] == '>>' and close_c == '>':
                depth -= 2
                if depth <= 0:
                    return out
            out.append(tok)


# ------------------------------------------------------------------ AST

class BodyParser(Cursor):
    """Expressions:
      ('num', n) ('bool', b) ('str', s) ('name', 'a::b') ('this',)
      ('call', fn, [args]) ('member', obj, name) ('index', obj, i)
      ('un', op, e) ('bin', op, l, r) ('assign', op, l, r) ('cond', c, a, b)
      ('scast', type, e) ('brace', type|None, [args]) ('lambda', [param names], [stmts])
    Statements:
      ('decl', type-spelling, is_ref, name, init|None, line) ('expr', e, line)
      ('if', c, [then], [else]|None, line) ('return', e|None, line)
      ('rangefor', var, range-expr, [body], line)"""

    def qualified(self):
        parts = []
        if self.at('::'):
            self.next()
        while True:
            k, v, _ = self.next()
            if k != 'id':
                raise ExtractError('identifier expected, got %r' % v)
            parts.append(v)
            if self.at('<') and parts[-1] in ('optional', 'vector', 'get', 'get_if', 'is_same_v', 'holds_alternative',
                                               'numeric_limits'):
                parts[-1] += '<' + spell(self.skip_balanced('<', '>')) + '>'
            if self.at('::') and self.peek(1)[0] == 'id':
                self.next()
                continue
            return '::'.join(parts)

    def expr(self):
        lhs = self.ternary()
        if self.peek()[0] == 'op' and self.peek()[1] in ASSIGN_OPS:
            op = self.next()[1]
            return ('assign', op, lhs, self.expr())
        return lhs

    def ternary(self):
        c = self.binary(1)
        if self.at('?'):
            self.next()
            a = self.expr()
            self.expect(':')
            b = self.expr()
            return ('cond', c, a, b)
        return c

    def binary(self, minp):
        lhs = self.unary()
        while True:
            k, v, _ = self.peek()
            if k != 'op' or v not in BIN or BIN[v] < minp:
                return lhs
            self.next()
            rhs = self.binary(BIN[v] + 1)
            lhs = ('bin', v, lhs, rhs)

    def unary(self):
        k, v, _ = self.peek()
        if k == 'op' and v in ('!', '~', '-', '+', '*', '&', '++', '--'):
            self.next()
            return ('un', v, self.unary())
        return self.postfix()

    def args(self, close):
        out = []
        if self.at(close):
            self.next()
            return out
        while True:
            out.append(self.expr())
            if self.at(','):
                self.next()
                continue
            self.expect(close)
            return out

    def postfix(self):
        e = self.primary()
        while True:
            if self.at('('):
                self.next()
                e = ('call', e, self.args(')'))
            elif self.at('['):
                self.next()
                i = self.expr()
                self.expect(']')
                e = ('index', e, i)
            elif self.at('.') or self.at('->'):
                self.next()
                k, v, _ = self.next()
                if k != 'id':
                    raise ExtractError('member name expected')
                e = ('member', e, v)
            elif self.at('++') or self.at('--'):
                raise ExtractError('postfix %s' % self.peek()[1])
            elif self.at('{') and e[0] == 'name':
                self.next()
                e = ('brace', e[1], self.args('}'))
            else:
                return e

    def lambda_(self):
        """after `[`: captures `]` `(` params `)` [-> type] `{` body `}`"""
        depth = 1
        while depth:
            tok = self.next()
            if tok[0] == 'eof':
                raise ExtractError('unterminated lambda capture')
            if tok[1] == '[':
                depth += 1
            elif tok[1] == ']':
                depth -= 1
        names = []
        if self.at('('):
            ptoks = self.skip_balanced('(', ')')
            names = [p[2] for p in parse_params(ptoks)]
        while not self.at('{'):
            if self.peek()[0] == 'eof':
                raise ExtractError('lambda without a body')
            self.next()
        return ('lambda', names, self.block())

    def primary(self):
        k, v, _ = self.next()
        if k == 'num':
            return ('num', int_value(v))
        if k == 'str':
            s = str_value(v)
            while self.peek()[0] == 'str':
                s += str_value(self.next()[1])
            return ('str', s)
        if k == 'chr':
            raise ExtractError('character literal %s' % v)
        if k == 'op' and v == '(':
            e = self.expr()
            self.expect(')')
            return e
        if k == 'op' and v == '{':
            return ('brace', None, self.args('}'))
        if k == 'op' and v == '[':
            return self.lambda_()
        if k == 'op' and v == '::':
            self.i -= 1
            return ('name', self.qualified())
        if k == 'id':
            if v in ('true', 'false'):
                return ('bool', v == 'true')
            if v == 'this':
                return ('this',)
            if v == 'static_cast':
                ty = spell(self.skip_balanced('<', '>'))
                self.expect('(')
                e = self.expr()
                self.expect(')')
                return ('scast', ty, e)
            if v in ('reinterpret_cast', 'const_cast', 'dynamic_cast', 'sizeof', 'new', 'delete', 'throw', 'operator',
                     'nullptr'):
                raise ExtractError('unsupported expression `%s`' % v)
            self.i -= 1
            return ('name', self.qualified())
        raise ExtractError('unexpected token %r' % v)

    # ---- statements
    def block(self):
        self.expect('{')
        out = []
        while not self.at('}'):
            if self.peek()[0] == 'eof':
                raise ExtractError('unterminated block')
            out.extend(self.stmt())
        self.expect('}')
        return out

    def stmt_or_block(self):
        return self.block() if self.at('{') else self.stmt()

    def decl_head(self):
        """-> (type-spelling, is_ref, name, index after the name) if a declaration starts here, else None.
        [const|static|constexpr]* type-name [<...>] [&|*] identifier ('=' | '{' | ';' | ':')"""
        j = self.i
        t = self.t
        n = len(t)
        while j < n and t[j][0] == 'id' and t[j][1] in ('const', 'static', 'constexpr'):
            j += 1
        start = j
        if j < n and t[j][1] == '::':
            j += 1
        if not (j < n and t[j][0] == 'id'):
            return None
        j += 1
        while j + 1 < n and t[j][1] == '::' and t[j + 1][0] == 'id':
            j += 2
        if j < n and t[j][1] == '<':
            c = Cursor(t, j)
            try:
                c.skip_balanced('<', '>')
            except ExtractError:
                return None
            j = c.i
        ty = spell(t[start:j])
        ref = False
        if j < n and t[j][1] in ('&', '*'):
            if t[j][1] == '*':
                return None
            ref = True
            j += 1
        if j < n and t[j][0] == 'id' and j + 1 < n and t[j + 1][1] in ('=', '{', ';', ':'):
            if ty in ('return', 'else', 'throw', 'goto', 'case', 'new', 'delete'):
                return None
            return ty, ref, t[j][1], j + 1
        return None

    def stmt(self):
        k, v, line = self.peek()
        if k == 'op' and v == ';':
            self.next()
            return []
        if k == 'op' and v == '{':
            return self.block()
        if k == 'id' and v == 'if':
            self.next()
            if self.at('constexpr'):
                raise ExtractError('`if constexpr` (line %d)' % line)
            self.expect('(')
            c = self.expr()
            self.expect(')')
            th = self.stmt_or_block()
            el = None
            if self.at('else'):
                self.next()
                el = self.stmt_or_block()
            return [('if', c, th, el, line)]
        if k == 'id' and v == 'for':
            self.next()
            self.expect('(')
            h = self.decl_head()
            if h is None or self.t[h[3]][1] != ':':
                raise ExtractError('only range-`for` loops are supported (line %d)' % line)
            self.i = h[3] + 1
            rng = self.expr()
            self.expect(')')
            body = self.stmt_or_block()
            return [('rangefor', h[2], rng, body, line)]
        if k == 'id' and v in ('while', 'do', 'switch', 'goto', 'try', 'throw', 'break', 'continue', 'using',
                               'typedef', 'case', 'default'):
            raise ExtractError('unsupported statement `%s` (line %d)' % (v, line))
        if k == 'id' and v == 'return':
            self.next()
            e = None
            if not self.at(';'):
                e = self.expr()
            self.expect(';')
            return [('return', e, line)]
        h = self.decl_head()
        if h is not None and self.t[h[3]][1] != ':':
            ty, ref, name, j = h
            self.i = j
            init = None
            if self.at('='):
                self.next()
                init = self.expr()
            elif self.at('{'):
                self.next()
                init = ('brace', ty, self.args('}'))
            self.expect(';')
            return [('decl', ty, ref, name, init, line)]
        if k == 'id' and v == 'const' and self.at('auto', 1) and self.at('[', 2) or \
                k == 'id' and v == 'auto' and self.at('[', 1):
            raise ExtractError('structured binding (line %d)' % line)
        e = self.expr()
        self.expect(';')
        return [('expr', e, line)]


def parse_params(toks):
    """-> [(type-spelling, is_lvalue_ref, name|None)]"""
    out = []
    if not toks:
        return out
    depth = 0
    cur = []
    for tok in toks + [('op', ',', -1)]:
        if tok[1] in ('<', '(', '{', '['):
            depth += 1
        elif tok[1] in ('>', ')', '}', ']'):
            depth -= 1
        if tok[1] == ',' and depth == 0:
            if any(t[1] == '=' for t in cur):
                raise ExtractError('default argument in %r' % spell(cur))
            ws = [t for t in cur if not (t[0] == 'id' and t[1] in ('const', 'typename', 'volatile'))]
            ref = any(t[1] == '&' for t in ws)
            if any(t[1] in ('&&', '*') for t in ws):
                raise ExtractError('parameter %r: pointer/rvalue-reference parameters are not supported' % spell(cur))
            ws = [t for t in ws if t[1] != '&']
            name = None
            if len(ws) >= 2 and ws[-1][0] == 'id' and (ws[-2][0] == 'id' or ws[-2][1] == '>'):
                name = ws[-1][1]
                ws = ws[:-1]
            if not ws:
                raise ExtractError('empty parameter')
            out.append((spell(ws), ref, name))
            cur = []
        else:
            cur.append(tok)
    return out


class Function:
    def __init__(self):
        self.name = None
        self.line = None
        self.tparams = []
        self.params = []       # [(type-spelling, is_ref, name)]
        self.body = None
        self.text = ''


def scan_functions(toks, wanted):
    """declaration scanner over the tokens of the class body: every member function *definition* whose name is in
    `wanted` -> [Function]"""
    out = []
    c = Cursor(toks)
    depth = 0
    n = len(toks)
    decl_start = 0
    while c.i < n:
        k, v, line = c.peek()
        if k == 'op' and v == '{':
            depth += 1
            c.next()
            continue
        if k == 'op' and v == '}':
            depth -= 1
            c.next()
            decl_start = c.i
            continue
        if depth == 0 and k == 'op' and v == ';':
            c.next()
            decl_start = c.i
            continue
        if depth == 0 and k == 'id' and v in ('public', 'private', 'protected') and c.at(':', 1):
            c.next()
            c.next()
            decl_start = c.i
            continue
        if depth == 0 and k == 'id' and v in wanted and c.at('(', 1):
            f = Function()
            f.name = v
            f.line = line
            head = toks[decl_start:c.i]
            if head and head[0][1] == 'template':
                hc = Cursor(head)
                hc.next()
                tp = hc.skip_balanced('<', '>')
                f.tparams = [tp[j + 1][1] for j in range(len(tp) - 1)
                             if tp[j][1] in ('typename', 'class') and tp[j + 1][0] == 'id']
            c.next()
            ptoks = c.skip_balanced('(', ')')
            while c.peek()[0] == 'id' and c.peek()[1] in ('const', 'noexcept', 'override', 'final'):
                c.next()
            if not c.at('{'):
                continue           # a declaration or a call inside an initialiser
            f.error = None
            try:
                f.params = parse_params(ptoks)
            except ExtractError as ex:
                f.params = []
                f.error = str(ex)
            body_start = c.i
            c.skip_balanced('{', '}')
            if f.error is None:
                try:
                    bp = BodyParser(toks[:c.i], body_start)
                    f.body = bp.block()
                except ExtractError as ex:
                    f.error = str(ex)
            f.text = spell(toks[decl_start:c.i])
            decl_start = c.i
            out.append(f)
            continue
        c.next()
    return out


# ------------------------------------------------------------------ C++ types read from the sources

class Types:
    """scalar widths, struct member types, enumerators -- read from sbepp.hpp, sbe.hpp, context_manager.hpp"""

    def __init__(self, repo):
        def rd(p):
            return cxx.strip_comments(open(os.path.join(repo, p), encoding='utf-8').read())
        sbepp = rd(SBEPP_HPP)
        self.bits = {'std::size_t': 64, 'size_t': 64}
        for n in (8, 16, 32, 64):
            self.bits['std::uint%d_t' % n] = n
            self.bits['uint%d_t' % n] = n
        for m in re.finditer(r'\busing\s+(\w+)\s*=\s*(?:::)?std::uint(8|16|32|64)_t\s*;', sbepp):
            self.bits[m.group(1)] = int(m.group(2))
        self.enums = {}
        for m in re.finditer(r'\benum\s+class\s+(\w+)\s*(?::\s*[\w:]+\s*)?\{([^}]*)\}', sbepp):
            names = [x.strip().split('=')[0].strip() for x in m.group(2).split(',') if x.strip()]
            self.enums[m.group(1)] = names
        self.structs = {}
        for p in (SBE_HPP, CTX_HPP):
            src = rd(p)
            for m in re.finditer(r'\bstruct\s+(\w+)\s*\{', src):
                end = cxx.match_brace(src, m.end() - 1)
                body = src[m.end():end]
                members = {}
                for decl in body.split(';'):
                    decl = decl.strip()
                    if not decl or '(' in decl or decl.startswith(('using', 'struct', 'enum', 'static', 'friend')):
                        continue
                    dm = re.fullmatch(r'(.*?)(\w+)(\s*=.*|\s*\{.*\})?', decl, re.S)
                    if dm and dm.group(1).strip():
                        members[dm.group(2)] = ' '.join(dm.group(1).split())
                self.structs[m.group(1)] = members

    def of_spelling(self, sp):
        """C++ type spelling -> translator type"""
        s = sp.replace('const ', '').replace(' const', '').replace('typename ', '').strip()
        s = re.sub(r'\s+', '', s)
        m = re.fullmatch(r'(?:::)?(?:std::)?optional<(.*)>', s)
        if m:
            inner = self.of_spelling(m.group(1))
            if inner[0] == 'uint':
                return ('opt', inner[1])
            return ('opaque',)
        m = re.fullmatch(r'(?:::)?(?:std::)?vector<(.*)>', s)
        if m:
            inner = self.of_spelling(m.group(1))
            # a vector of variants (`composite_element`) holds entities whose struct is not known statically
            return ('vec', inner[1] if inner[0] == 'struct' else None)
        if s == 'bool':
            return ('bool',)
        if s in self.bits:
            return ('uint', self.bits[s])
        base = s.split('::')[-1]
        if base in self.bits and s in ('sbepp::' + base, '::sbepp::' + base):
            return ('uint', self.bits[base])
        if base in self.enums:
            return ('enum', base)
        if base in self.structs:
            return ('struct', base)
        return ('opaque',)

    def member(self, struct, name, ctx=False, writing=False):
        """type of `<struct>.name`; struct None = a template parameter: all structs that have the member must agree
        (ctx: among the `*_context` structs, else among the others)"""
        if struct is not None:
            if name not in self.structs.get(struct, {}):
                raise ExtractError('struct %s has no member %s' % (struct, name))
            return self.of_spelling(self.structs[struct][name])
        cands = set()
        for sname, ms in self.structs.items():
            if sname.endswith('_context') != ctx:
                continue
            if name in ms:
                cands.add(self.of_spelling(ms[name]))
        if not cands:
            raise ExtractError('no %s struct has a member %s' % ('context' if ctx else 'schema', name))
        if len(cands) > 1:
            widths = {t[1] for t in cands if t[0] in ('uint', 'opt')}
            if writing and len(widths) == 1 and all(t[0] in ('uint', 'opt') for t in cands):
                # an unsigned value stored into `U` or `std::optional<U>`: the stored value is a `U`
                return ('uint', widths.pop())
            raise ExtractError('member %s has different types in different structs: %s' % (name, sorted(cands)))
        return cands.pop()

    def ctx_struct(self, struct):
        """sbe::field -> field_context ..."""
        if struct is None:
            return None
        alias = {'enumeration': 'enumeration_context'}
        n = alias.get(struct, struct + '_context')
        return n if n in self.structs else None


# ------------------------------------------------------------------ lowering: AST -> IR over locations

class Sig:
    """what a translated function reads and writes, in terms of its own parameters"""

    def __init__(self):
        self.cname = None
        self.lean = None
        self.line = None
        self.text = ''
        self.params = []       # [(kind, name, type)] kind: 'ent' | 'val' | 'ref'
        self.inputs = []       # [(key, lean name, type)] key: ('call', canon) | ('ctx', role-path, field) | ('mem', role-path, field)
        self.outputs = []      # [(key, lean name, type, optional?)] key: ('list', ...) | ('ctx', role-path, field) | ('ref', param index)
        self.other_rules = []
        self.lines = []


class Lower:
    def __init__(self, types, fn, sigs, lean_names):
        self.T = types
        self.fn = fn
        self.sigs = sigs               # C++ name -> [Sig] of the functions translated so far
        self.lean_names = lean_names   # C++ names that are (or will be) translated, for the recursion test
        self.locals = {}               # name -> ('var', type) | ('alias', lowered value)
        self.all_locals = {}
        self.created = []
        self.role = {}                 # entity root name -> canonical role
        self.ent_struct = {}           # entity root name -> struct name | None
        self.params = []
        self.nloops = 0
        for i, (ty, ref, name) in enumerate(fn.params):
            if name is None:
                raise ExtractError('unnamed parameter')
            t = ('struct', None) if ty in fn.tparams else types.of_spelling(ty)
            if t[0] == 'struct':
                self.role[name] = 'p%d' % i
                self.ent_struct[name] = t[1]
                self.bind(name, ('alias', ('ent', (name,), t[1])))
                self.params.append(('ent', name, t))
            elif t[0] == 'uint':
                self.bind(name, ('var', t))
                self.params.append(('ref' if ref else 'val', name, t))
            else:
                raise ExtractError('parameter %s: type %s is not supported' % (name, ty))

    def bind(self, name, b):
        self.locals[name] = b
        self.all_locals[name] = b

    # ---- canonical (rename-insensitive) spelling of locations and oracle arguments
    def cpath(self, path):
        return '.'.join((self.role[path[0]],) + tuple(path[1:]))

    def canon(self, lv):
        k = lv[0]
        if k == 'ent':
            return 'ent:' + self.cpath(lv[1])
        if k == 'ctxobj':
            return 'ctx:' + self.cpath(lv[1])
        return self.canon_ir(lv[1])

    def canon_ir(self, ir):
        k = ir[0]
        if k == 'num':
            return str(ir[1])
        if k == 'tnum':
            return '%du%d' % (ir[1], ir[2])
        if k == 'bool':
            return 'true' if ir[1] else 'false'
        if k == 'str':
            return repr(ir[1])
        if k == 'enumc':
            return '%s::%s' % (ir[1], ir[2])
        if k == 'loc':
            loc = ir[1]
            if loc[0] == 'local':
                return 'local:' + loc[1]
            return '%s:%s.%s' % (loc[0], self.cpath(loc[1]), loc[2])
        if k == 'oracle':
            return ir[1]
        if k in ('bin', 'optcmp'):
            return '(%s %s %s)' % (self.canon_ir(ir[2]), ir[1], self.canon_ir(ir[3]))
        if k == 'un':
            return '%s(%s)' % (ir[1], self.canon_ir(ir[2]))
        if k in ('deref', 'has'):
            return '%s(%s)' % (k, self.canon_ir(ir[1]))
        raise ExtractError('cannot spell %r' % (ir,))

    # ---- types
    def loc_type(self, loc, writing=False):
        if loc[0] == 'local':
            b = self.locals.get(loc[1])
            if not b or b[0] != 'var':
                raise ExtractError('`%s` is not a scalar local' % loc[1])
            return b[1]
        path, field = loc[1], loc[2]
        st = self.struct_of(path)
        if loc[0] == 'ctx':
            return self.T.member(self.T.ctx_struct(st), field, ctx=True, writing=writing)
        return self.T.member(st, field)

    def struct_of(self, path):
        st = self.ent_struct[path[0]]
        for f in path[1:]:
            t = self.T.member(st, f)
            if t[0] not in ('struct', 'vec'):
                raise ExtractError('%s is not a struct' % '.'.join(path))
            st = t[1]
        return st

    def ir_type(self, ir):
        k = ir[0]
        if k == 'num':
            return ('int',)
        if k == 'tnum':
            return ('uint', ir[2])
        if k == 'bool':
            return ('bool',)
        if k == 'enumc':
            return ('enum', ir[1])
        if k == 'loc':
            return self.loc_type(ir[1])
        if k == 'oracle':
            return ir[3]
        if k == 'bin':
            if ir[1] in ('==', '!=', '<', '<=', '>', '>=', '&&', '||'):
                return ('bool',)
            a, b = self.ir_type(ir[2]), self.ir_type(ir[3])
            bits = [t[1] for t in (a, b) if t[0] == 'uint']
            if not bits or any(t[0] not in ('uint', 'int') for t in (a, b)):
                raise ExtractError('arithmetic on %s, %s' % (a, b))
            return ('uint', max(bits + [32]) if max(bits) < 32 else max(bits))
        if k in ('optcmp', 'has'):
            return ('bool',)
        if k == 'un':
            if ir[1] == '!':
                return ('bool',)
            raise ExtractError('unary %s' % ir[1])
        if k == 'deref':
            t = self.ir_type(ir[1])
            if t[0] != 'opt':
                raise ExtractError('dereference of a non-optional')
            return ('uint', t[1])
        return ('opaque',)

    # ---- expressions -> lowered values ('val', ir) | ('ent', path, struct) | ('ctxobj', path) | ('opaque', ir)
    def callee_name(self, fn):
        if fn[0] == 'name':
            return fn[1]
        if fn[0] == 'member' and fn[1][0] == 'this':
            return fn[2]
        return None

    def oracle(self, name, args, expect):
        parts = [self.canon(a) for a in args]
        key = '%s(%s)' % (name, ', '.join(parts))
        t = expect if expect is not None else ('opaque',)
        ir = ('oracle', key, name.split('::')[-1], t)
        return ('val', ir) if t[0] != 'opaque' else ('opaque', ir)

    def lower(self, e, expect=None):
        k = e[0]
        if k == 'num':
            return ('val', ('num', e[1]))
        if k == 'bool':
            return ('val', ('bool', e[1]))
        if k == 'str':
            return ('opaque', ('str', e[1]))
        if k == 'name':
            n = e[1]
            if n in self.locals:
                b = self.locals[n]
                if b[0] == 'var':
                    return ('val', ('loc', ('local', n)))
                lv = b[1]
                if lv[0] == 'opaque' and expect is not None and lv[1][0] == 'oracle':
                    o = lv[1]
                    return ('val', ('oracle', o[1], o[2], expect))
                return lv
            parts = n.split('::')
            if len(parts) >= 2 and parts[-2] in self.T.enums and parts[-1] in self.T.enums[parts[-2]]:
                return ('val', ('enumc', parts[-2], parts[-1]))
            return ('opaque', ('oracle', n, parts[-1], ('opaque',)))
        if k == 'member':
            obj = self.lower(e[1])
            if obj[0] == 'ent':
                path = obj[1]
                t = self.T.member(obj[2], e[2])
                if t[0] == 'struct':
                    return ('ent', path + (e[2],), t[1])
                if t[0] == 'vec':
                    return ('ent', path + (e[2],), t[1])
                ir = ('loc', ('mem', path, e[2]))
                return ('val', ir) if t[0] != 'opaque' else ('opaque', ir)
            if obj[0] == 'ctxobj':
                return ('val', ('loc', ('ctx', obj[1], e[2])))
            raise ExtractError('member `%s` of a value the translator does not track' % e[2])
        if k == 'un' and e[1] == '*':
            x = self.lower(e[2])
            if x[0] == 'val' and self.ir_type(x[1])[0] == 'opt':
                return ('val', ('deref', x[1]))
            if x[0] == 'opaque':
                return ('opaque', ('deref', x[1]))
            raise ExtractError('unary * on %s' % x[0])
        if k == 'un' and e[1] == '!':
            x = self.lower(e[2], ('bool',))
            if x[0] != 'val':
                raise ExtractError('! on a value the translator does not track')
            return ('val', ('un', '!', self.as_bool(x[1])))
        if k == 'un':
            raise ExtractError('unary %s' % e[1])
        if k == 'bin':
            op = e[1]
            if op in ('&&', '||'):
                a = self.lower(e[2], ('bool',))
                b = self.lower(e[3], ('bool',))
                if a[0] != 'val' or b[0] != 'val':
                    raise ExtractError('%s on untracked values' % op)
                return ('val', ('bin', op, self.as_bool(a[1]), self.as_bool(b[1])))
            arith = expect if op in ('+', '-', '*') and expect is not None and expect[0] == 'uint' else None
            a = self.lower(e[2], arith)
            b = self.lower(e[3], arith)
            if a[0] == 'opaque' and b[0] == 'val':
                a = self.lower(e[2], self.ir_type(b[1]))
            if b[0] == 'opaque' and a[0] == 'val':
                b = self.lower(e[3], self.ir_type(a[1]))
            if a[0] != 'val' or b[0] != 'val':
                raise ExtractError('operator %s on values the translator does not track' % op)
            ta, tb = self.ir_type(a[1]), self.ir_type(b[1])
            if op in ('==', '!=', '<', '<=', '>', '>='):
                if ta[0] == 'opt' and tb[0] in ('uint', 'int'):
                    return ('val', ('optcmp', op, a[1], b[1], 'left'))
                if tb[0] == 'opt' and ta[0] in ('uint', 'int'):
                    return ('val', ('optcmp', op, a[1], b[1], 'right'))
                if ta[0] == 'enum' and tb == ta and op in ('==', '!='):
                    return ('val', ('bin', op, a[1], b[1]))
                if ta[0] in ('uint', 'int') and tb[0] in ('uint', 'int'):
                    return ('val', ('bin', op, a[1], b[1]))
                raise ExtractError('comparison %s between %s and %s' % (op, ta, tb))
            if op in ('+', '-', '*'):
                ir = ('bin', op, a[1], b[1])
                self.ir_type(ir)
                return ('val', ir)
            raise ExtractError('operator %s' % op)
        if k == 'call':
            fn = e[1]
            if fn[0] == 'member' and fn[2] in CTX_ACCESS and fn[1] == ('name', CTX_MANAGER):
                if len(e[2]) != 1:
                    raise ExtractError('%s->%s with %d arguments' % (CTX_MANAGER, fn[2], len(e[2])))
                a = self.lower(e[2][0])
                if a[0] != 'ent':
                    raise ExtractError('%s->%s of a value that is not an entity' % (CTX_MANAGER, fn[2]))
                if fn[2] == 'create':
                    self.created.append(a[1])
                return ('ctxobj', a[1])
            if fn[0] == 'member' and fn[1][0] != 'this':
                obj = self.lower(fn[1])
                if fn[2] == 'has_value' and not e[2] and obj[0] == 'val' and self.ir_type(obj[1])[0] == 'opt':
                    return ('val', ('has', obj[1]))
                if fn[2] == 'value' and not e[2] and obj[0] == 'val' and self.ir_type(obj[1])[0] == 'opt':
                    return ('val', ('deref', obj[1]))
                args = [obj] + [self.lower(a) for a in e[2]]
                return self.oracle('.' + fn[2], args, expect)
            name = self.callee_name(fn)
            if name is None:
                raise ExtractError('call of a computed function')
            m = re.fullmatch(r'(?:::)?(?:std::)?numeric_limits<(.+)>::(max|min)', name)
            if m and not e[2]:
                t = self.T.of_spelling(m.group(1))
                if t[0] != 'uint':
                    raise ExtractError('numeric_limits of %s' % m.group(1))
                return ('val', ('tnum', 2 ** t[1] - 1 if m.group(2) == 'max' else 0, t[1]))
            if name in self.lean_names:
                raise ExtractError('value of the translated function %s is used' % name)
            return self.oracle(name, [self.lower(a) for a in e[2]], expect)
        if k == 'scast':
            t = self.T.of_spelling(e[1])
            x = self.lower(e[2])
            if x[0] == 'val' and t[0] == 'uint' and self.ir_type(x[1]) == t:
                return x
            raise ExtractError('static_cast<%s>' % e[1])
        if k == 'brace' and not e[2]:
            raise ExtractError('value-initialisation outside a declaration')
        raise ExtractError('expression %s' % k)

    def as_bool(self, ir):
        t = self.ir_type(ir)
        if t[0] == 'bool':
            return ir
        if t[0] == 'opt':
            return ('has', ir)
        raise ExtractError('%s used as a condition' % (t,))

    def cond(self, e):
        x = self.lower(e, ('bool',))
        if x[0] != 'val':
            raise ExtractError('condition on a value the translator does not track')
        return self.as_bool(x[1])

    # ---- statements
    def block(self, stmts):
        out = []
        for s in stmts:
            try:
                self.created = []
                lowered = self.stmt(s)
                out.extend(('establish', p, s[-1]) for p in self.created)
                self.created = []
                out.extend(lowered)
            except ExtractError as ex:
                # a statement outside the grammar: harmless if the slice does not need it, fatal otherwise
                out.append(('unparsed', str(ex), s[-1], ast_names(s)))
        return out

    def lvalue(self, e):
        x = self.lower(e)
        if x[0] == 'val' and x[1][0] == 'loc':
            return x[1][1]
        raise ExtractError('assignment to something that is not a location')

    def zero(self, t):
        if t[0] == 'uint':
            return ('num', 0)
        if t[0] == 'bool':
            return ('bool', False)
        if t[0] == 'enum':
            return ('enumc', t[1], self.T.enums[t[1]][0])
        raise ExtractError('value-initialisation of %s' % (t,))

    def stmt(self, s):
        k = s[0]
        line = s[-1]
        if k == 'decl':
            _, ty, ref, name, init, _ = s
            if name in self.locals or name in self.role:
                raise ExtractError('`%s` shadows another name' % name)
            if ref:
                if init is None:
                    raise ExtractError('reference without initialiser')
                lv = self.lower(init)
                if lv[0] == 'val':
                    if lv[1][0] != 'loc':
                        raise ExtractError('reference to a temporary')
                    raise ExtractError('reference to a scalar location (`%s`)' % name)
                self.bind(name, ('alias', lv))
                return []
            t = None if ty == 'auto' else self.T.of_spelling(ty)
            if init is not None and init[0] == 'brace' and not init[2]:
                if t is None:
                    raise ExtractError('auto x{}')
                self.bind(name, ('var', t))
                return [('assign', ('local', name), self.zero(t), t, line)]
            if init is None:
                raise ExtractError('uninitialised local `%s`' % name)
            if init[0] == 'brace' and len(init[2]) == 1:
                init = init[2][0]
            lv = self.lower(init, t if t and t[0] != 'opaque' else None)
            if lv[0] == 'val':
                it = self.ir_type(lv[1])
                if it[0] == 'int':
                    if t is None or t[0] != 'uint':
                        raise ExtractError('literal initialiser of `%s`' % name)
                    it = t
                if t is not None and t[0] != 'opaque' and t != it:
                    raise ExtractError('`%s`: conversion %s -> %s in a declaration' % (name, it, t))
                self.bind(name, ('var', it))
                return [('assign', ('local', name), lv[1], it, line)]
            self.bind(name, ('alias', lv))
            return []
        if k == 'return':
            if s[1] is not None:
                raise ExtractError('return with a value')
            return [('return', line)]
        if k == 'if':
            c = self.cond(s[1])
            saved = dict(self.locals)
            outer_created = self.created
            th = self.block(s[2])
            self.locals = dict(saved)
            el = self.block(s[3]) if s[3] is not None else []
            self.locals = saved
            self.created = outer_created
            return [('if', c, th, el, line)]
        if k == 'rangefor':
            _, var, rng, body, _ = s
            r = self.lower(rng)
            if r[0] != 'ent':
                raise ExtractError('range of the loop is not a member vector')
            if var in self.locals or var in self.role:
                raise ExtractError('`%s` shadows another name' % var)
            saved = dict(self.locals)
            self.nloops += 1
            self.role[var] = 'it%d' % self.nloops
            t_last = self.T.member(self.struct_of(r[1][:-1]), r[1][-1]) if len(r[1]) > 1 else ('opaque',)
            if t_last[0] != 'vec':
                raise ExtractError('range of the loop is not a std::vector member')
            self.ent_struct[var] = t_last[1]
            self.bind(var, ('alias', ('ent', (var,), self.ent_struct[var])))
            outer_created = self.created
            b = self.block(body)
            self.created = outer_created
            self.locals = saved
            return [('for', var, r[1], b, line)]
        if k == 'expr':
            e = s[1]
            if e[0] == 'assign':
                loc = self.lvalue(e[2])
                t = self.loc_type(loc, writing=True)
                rhs = self.lower(e[3], t if t[0] != 'opaque' else None)
                if rhs[0] != 'val':
                    raise ExtractError('assignment of a value the translator does not track')
                ir = rhs[1]
                if e[1] != '=':
                    if e[1] not in ('+=', '-=', '*='):
                        raise ExtractError('operator %s' % e[1])
                    ir = ('bin', e[1][0], ('loc', loc), ir)
                rt = self.ir_type(ir)
                if rt[0] == 'int':
                    rt = t
                if t[0] == 'opt' and rt == ('uint', t[1]):
                    ir = ('some', ir)
                elif rt != t:
                    raise ExtractError('assignment converts %s to %s' % (rt, t))
                return [('assign', loc, ir, t, line)]
            if e[0] == 'call':
                name = self.callee_name(e[1])
                if name == THROW:
                    return [self.throw(e[2], line)]
                if name in ('std::visit', 'visit') and len(e[2]) == 2 and e[2][0][0] == 'lambda':
                    lam = e[2][0]
                    tgt = self.lower(e[2][1])
                    if tgt[0] != 'ent' or len(lam[1]) != 1 or lam[1][0] is None:
                        raise ExtractError('std::visit of something that is not an entity')
                    if lam[1][0] in self.locals or lam[1][0] in self.role:
                        raise ExtractError('`%s` shadows another name' % lam[1][0])
                    if has_return(lam[2]):
                        raise ExtractError('return inside a visited lambda')
                    saved = dict(self.locals)
                    # the lambda parameter denotes the entity held by the variant
                    self.bind(lam[1][0], ('alias', tgt))
                    outer_created = self.created
                    b = self.block(lam[2])
                    self.created = outer_created
                    self.locals = saved
                    return b
                if name in self.sigs:
                    return [self.tcall(name, e[2], line)]
                if name in self.lean_names:
                    # recursion into another entity (nested encodings / groups): the same rules applied elsewhere
                    pre = []
                    if name in CREATES_CONTEXT:
                        for a in e[2]:
                            lv = self.lower(a)
                            if lv[0] == 'ent':
                                pre.append(('establish', lv[1], line))
                    return pre + [('other', 'recursion: ' + name, line)]
                # another rule; remember what it is given (layout values handed on to other rules)
                given = []
                for a in e[2]:
                    try:
                        given.append(self.canon(self.lower(a)))
                    except ExtractError:
                        given.append('?')
                return [('other', name or 'call', line, tuple(given))]
            return [('other', e[0], line)]
        raise ExtractError('statement %s' % k)

    def throw(self, args, line):
        if not args or args[0][0] != 'str':
            raise ExtractError('throw_error without a literal format string')
        fmt = args[0][1]
        rest = args[1:]
        if fmt.count('{}') != len(rest):
            raise ExtractError('throw_error: %d placeholders, %d arguments' % (fmt.count('{}'), len(rest)))
        body = fmt
        if fmt.startswith('{}: '):
            first = rest[0]
            if not (first[0] == 'member' and first[2] == 'location') and not (first[0] == 'call'):
                raise ExtractError('throw_error: the first argument is not a location')
            body = fmt[4:]
            rest = rest[1:]
        tag = re.split(r'[({]', body)[0].strip()
        irs = []
        for a in rest:
            try:
                x = self.lower(a)
            except ExtractError:
                x = ('opaque', None)
            if x[0] == 'val' and self.ir_type(x[1])[0] in ('uint', 'int'):
                irs.append(x[1])
            else:
                irs.append(None)       # a name, a type ...: not a layout value
        return ('throw', tag, irs, fmt, line)

    def tcall(self, name, args, line):
        cands = self.sigs[name]
        lowered = [self.lower(a) for a in args]
        sig = None
        for c in cands:
            if len(c.params) == len(lowered):
                sig = c
        if sig is None:
            raise ExtractError('call of %s with %d arguments' % (name, len(args)))
        binds = []
        for (kind, pname, pt), lv, a in zip(sig.params, lowered, args):
            if kind == 'ent':
                if lv[0] != 'ent':
                    raise ExtractError('%s: argument `%s` is not an entity' % (name, pname))
                binds.append(('ent', lv[1]))
            elif kind == 'ref':
                if lv[0] != 'val' or lv[1][0] != 'loc' or lv[1][1][0] != 'local' or self.ir_type(lv[1]) != pt:
                    raise ExtractError('%s: by-reference argument `%s` must be a local of the same type' % (name, pname))
                binds.append(('ref', lv[1][1]))
            else:
                if lv[0] != 'val':
                    raise ExtractError('%s: argument `%s` is not tracked' % (name, pname))
                t = self.ir_type(lv[1])
                if t != pt and t[0] != 'int':
                    raise ExtractError('%s: argument `%s` converts %s to %s' % (name, pname, t, pt))
                binds.append(('val', lv[1]))
        return ('tcall', sig, binds, line)


def ast_names(x, acc=None):
    """every identifier in an AST fragment"""
    if acc is None:
        acc = set()
    if isinstance(x, (tuple, list)):
        if len(x) >= 2 and x[0] == 'name' and isinstance(x[1], str):
            acc.add(x[1])
            acc.add(x[1].split('::')[-1])
        elif len(x) >= 3 and x[0] == 'member' and isinstance(x[2], str):
            acc.add(x[2])
            ast_names(x[1], acc)
        elif len(x) >= 4 and x[0] == 'decl':
            acc.add(x[3])
            ast_names(x[4], acc)
        else:
            for y in x:
                ast_names(y, acc)
    return acc


def has_return(stmts):
    for s in stmts:
        if s[0] == 'return':
            return True
        if s[0] == 'if' and (has_return(s[2]) or (s[3] is not None and has_return(s[3]))):
            return True
        if s[0] == 'rangefor' and has_return(s[3]):
            return True
    return False


# ------------------------------------------------------------------ slicing

def ir_reads(ir, acc=None):
    """locations read by an IR expression"""
    if acc is None:
        acc = set()
    if ir is None:
        return acc
    k = ir[0]
    if k == 'loc':
        acc.add(ir[1])
    elif k in ('bin',):
        ir_reads(ir[2], acc)
        ir_reads(ir[3], acc)
    elif k == 'optcmp':
        ir_reads(ir[2], acc)
        ir_reads(ir[3], acc)
    elif k == 'un':
        ir_reads(ir[2], acc)
    elif k in ('deref', 'has', 'some'):
        ir_reads(ir[1], acc)
    return acc


def rebase(key_path, binds_ent):
    """role path of the callee ('p0.members') -> caller entity path"""
    parts = key_path.split('.')
    return binds_ent[parts[0]] + tuple(parts[1:])


class Slice:
    """which IR statements the layout depends on (see the module docstring)"""

    def __init__(self, low, ir):
        self.low = low
        self.ir = ir
        self.acc = set(('local', n) for k, n, _ in low.params if k in ('val', 'ref'))
        self.find_acc(ir)
        self.check_unparsed(ir)
        self.taint = set(self.acc)
        self.rel = set()
        self.kept = set()
        self.other = []
        changed = True
        while changed:
            n = (len(self.taint), len(self.rel), len(self.kept))
            self.pass_(ir, False)
            changed = n != (len(self.taint), len(self.rel), len(self.kept))
        self.collect_other(ir)

    def check_unparsed(self, stmts):
        """a statement the lowering could not handle must not touch anything the layout is computed from"""
        sensitive = set(n for n, b in self.low.all_locals.items()
                        if b[0] == 'var' or (b[0] == 'alias' and b[1][0] == 'ctxobj'))
        sensitive |= set(self.low.lean_names)
        for s in stmts:
            if s[0] == 'unparsed' and (s[3] & sensitive):
                raise ExtractError('line %d: %s' % (s[2], s[1]))
            if s[0] == 'if':
                self.check_unparsed(s[2])
                self.check_unparsed(s[3])
            elif s[0] == 'for':
                self.check_unparsed(s[3])

    def find_acc(self, stmts):
        for s in stmts:
            if s[0] == 'tcall':
                for b in s[2]:
                    if b[0] == 'ref':
                        self.acc.add(b[1])
            elif s[0] == 'if':
                self.find_acc(s[2])
                self.find_acc(s[3])
            elif s[0] == 'for':
                self.find_acc(s[3])

    def ents(self, s):
        return dict(('p%d' % i, b[1]) for i, b in enumerate(s[2]) if b[0] == 'ent')

    def tcall_io(self, s):
        """-> (locations read, locations written) by a call of a translated function, in the caller's terms"""
        sig, binds = s[1], s[2]
        ents = self.ents(s)
        reads, writes = set(), set()
        for b in binds:
            if b[0] == 'ref':
                reads.add(b[1])
                writes.add(b[1])
            elif b[0] == 'val':
                ir_reads(b[1], reads)
        for key, _, _ in sig.inputs:
            if key[0] in ('ctx', 'mem'):
                reads.add((key[0], rebase(key[1], ents), key[2]))
        for key, _, _, _ in sig.outputs:
            if key[0] == 'ctx':
                writes.add(('ctx', rebase(key[1], ents), key[2]))
        return reads, writes

    def pass_(self, stmts, under_layout_cond):
        any_kept = False
        for s in stmts:
            k = s[0]
            keep = False
            if k == 'assign':
                if ir_reads(s[2]) & self.taint:
                    self.taint.add(s[1])
                keep = s[1] in self.taint or s[1] in self.rel
                if keep:
                    self.rel |= ir_reads(s[2])
            elif k == 'establish':
                self.kept.add(id(s))
            elif k == 'return':
                keep = True
            elif k == 'throw':
                keep = under_layout_cond
                if keep:
                    for a in s[2]:
                        self.rel |= ir_reads(a)
            elif k == 'tcall':
                reads, writes = self.tcall_io(s)
                keep = any(b[0] in ('ref', 'val') for b in s[2]) or bool(writes)
                if keep:
                    self.taint |= writes
                    self.rel |= reads
            elif k == 'if':
                lay = under_layout_cond or bool(ir_reads(s[1]) & self.taint)
                a = self.pass_(s[2], lay)
                b = self.pass_(s[3], lay)
                keep = a or b
                if keep:
                    self.rel |= ir_reads(s[1])
            elif k == 'for':
                keep = self.pass_(s[3], under_layout_cond)
            if keep:
                self.kept.add(id(s))
                any_kept = True
        return any_kept

    def collect_other(self, stmts):
        for s in stmts:
            if id(s) in self.kept:
                if s[0] == 'if':
                    self.collect_other(s[2])
                    self.collect_other(s[3])
                elif s[0] == 'for':
                    self.collect_other(s[3])
                continue
            if s[0] == 'unparsed':
                self.other.append('line %d: not translated (%s)' % (s[2], s[1]))
            elif s[0] == 'other':
                self.other.append('line %d: %s%s' % (s[2], s[1], '(%s)' % ', '.join(s[3]) if len(s) > 3 else ''))
            elif s[0] == 'throw':
                self.other.append('line %d: throw_error "%s"' % (s[4], s[1]))
            elif s[0] == 'assign':
                self.other.append('line %d: %s := ...' % (s[4], self.low.canon_ir(('loc', s[1]))))
            elif s[0] == 'if':
                self.other.append('line %d: if (...) other rules' % s[4])
            elif s[0] == 'for':
                self.other.append('line %d: loop over %s' % (s[4], '.'.join(s[2])))
            elif s[0] == 'tcall':
                self.other.append('line %d: %s' % (s[3], s[1].cname))


# ------------------------------------------------------------------ rendering: kept IR -> Lean

def lean_type(t):
    if t[0] in ('uint', 'int'):
        return 'Nat'
    if t[0] == 'opt':
        return 'Option Nat'
    if t[0] == 'bool':
        return 'Bool'
    if t[0] == 'enum':
        return t[1]
    raise ExtractError('no Lean type for %s' % (t,))


def indent(lines, n=2):
    return [' ' * n + l for l in lines]


def paren(lines):
    lines = list(lines)
    lines[0] = '(' + lines[0]
    lines[-1] = lines[-1] + ')'
    return lines[:1] + indent(lines[1:], 1)


class St:
    def __init__(self, env=None, maybe=(), written=(), known=None, listout=None, established=()):
        self.established = set(established)   # entities whose context exists (created in this function)
        self.env = dict(env or {})      # location -> Lean expression of its current value
        self.maybe = set(maybe)         # written locations whose Lean value is an `Option` ("was it written?")
        self.written = set(written)
        self.known = dict(known or {})  # canonical spelling of an optional -> Lean variable of its engaged value
        self.listout = listout

    def copy(self):
        return St(self.env, self.maybe, self.written, self.known, self.listout, self.established)


class Render:
    def __init__(self, low, sl, sig):
        self.low = low
        self.sl = sl
        self.sig = sig
        self.inputs = {}
        self.elem_inputs = {}
        self.loopvar = None
        self.loop_done = False
        self.has_loop = any(s[0] == 'for' and id(s) in sl.kept for s in sl.ir)
        self.exits = []          # pass 1: [(written, maybe)] at the exits of the function
        self.leaves = []         # pass 1: the same at the ends of the loop body
        self.out_locs = None
        self.opt_out = {}
        self.elem_locs = None
        self.elem_opt = {}
        self.wraps = set()
        self.aux = []
        self.used = set(low.all_locals) | set(low.role)

    def fresh(self, base):
        n = base
        i = 1
        while n in self.used:
            i += 1
            n = '%s%d' % (base, i)
        return n

    # ---- names
    def locname(self, loc):
        if loc[0] == 'local':
            return loc[1]
        return '_'.join(loc[1]) + ('_ctx_' if loc[0] == 'ctx' else '_') + loc[2]

    def read_loc(self, loc, st):
        if loc in st.env:
            if loc in st.maybe:
                raise ExtractError('`%s` is read where it may not have been written' % self.locname(loc))
            return st.env[loc]
        if loc[0] == 'local':
            raise ExtractError('`%s` is read before it is assigned (or outside the loop that carries it)' % loc[1])
        key = (loc[0], self.low.cpath(loc[1]), loc[2])
        t = self.low.loc_type(loc)
        if self.loopvar is not None and loc[1][0] == self.loopvar:
            if loc[0] == 'ctx' and loc[1] not in st.established:
                raise ExtractError('the context of `%s` is read before anything in the loop body creates it' % '.'.join(loc[1]))
            fname = '_'.join(loc[1][1:] + ((loc[2],) if loc[0] == 'mem' else ('context', loc[2])))
            self.elem_inputs[key] = (fname, t)
            return '%s.%s' % (self.loopvar, fname)
        if self.loopvar is not None:
            raise ExtractError('the loop body reads `%s` of the enclosing function' % self.locname(loc))
        self.inputs[key] = (self.locname(loc), t)
        return self.locname(loc)

    def oracle(self, ir):
        key = ('call', ir[1])
        if ir[3][0] == 'opaque':
            raise ExtractError('the value of `%s` is used but its type is not known' % ir[1])
        if self.loopvar is not None and re.search(r'\b%s\b' % self.low.role[self.loopvar], ir[1]):
            self.elem_inputs[key] = (ir[2], ir[3])
            return '%s.%s' % (self.loopvar, ir[2])
        if self.loopvar is not None:
            raise ExtractError('the loop body uses `%s` of the enclosing function' % ir[1])
        self.inputs[key] = (ir[2], ir[3])
        return ir[2]

    # ---- expressions
    def bits(self, ir):
        t = self.low.ir_type(ir)
        return t[1] if t[0] == 'uint' else None

    def expr(self, ir, st):
        k = ir[0]
        if k in ('num', 'tnum'):
            return str(ir[1])
        if k == 'bool':
            return 'true' if ir[1] else 'false'
        if k == 'enumc':
            return '%s.%s' % (ir[1], ir[2])
        if k == 'loc':
            return self.read_loc(ir[1], st)
        if k == 'oracle':
            return self.oracle(ir)
        if k == 'some':
            return 'some (%s)' % self.expr(ir[1], st)
        if k == 'deref':
            c = self.low.canon_ir(ir[1])
            if c not in st.known:
                raise ExtractError('`*%s` where the optional is not known to be engaged (undefined behaviour if it is not)' % c)
            return st.known[c]
        if k == 'bin' and ir[1] in ('+', '-', '*'):
            n = self.low.ir_type(ir)[1]
            self.wraps.add(n)
            a, b = self.expr(ir[2], st), self.expr(ir[3], st)
            if ir[1] == '-':
                return 'wrap%d (%s + %d - %s)' % (n, a, 2 ** n, b)
            return 'wrap%d (%s %s %s)' % (n, a, ir[1], b)
        if self.low.ir_type(ir)[0] == 'bool':
            return 'decide (%s)' % self.prop(ir, st)
        raise ExtractError('expression %s' % k)

    def prop(self, ir, st):
        k = ir[0]
        if k == 'bin' and ir[1] in ('&&', '||'):
            return '(%s %s %s)' % (self.prop(ir[2], st), '∧' if ir[1] == '&&' else '∨', self.prop(ir[3], st))
        if k == 'bin':
            op = {'==': '=', '!=': '≠', '<': '<', '<=': '≤', '>': '>', '>=': '≥'}[ir[1]]
            return '%s %s %s' % (self.expr(ir[2], st), op, self.expr(ir[3], st))
        if k == 'un' and ir[1] == '!':
            return '¬ (%s)' % self.prop(ir[2], st)
        if k == 'optcmp':
            op = {'==': '=', '!=': '≠', '<': '<', '<=': '≤', '>': '>', '>=': '≥'}[ir[1]]
            left = ir[4] == 'left'
            o, v = (ir[2], ir[3]) if left else (ir[3], ir[2])
            c = self.low.canon_ir(o)
            if c in st.known:
                a, b = (st.known[c], self.expr(v, st)) if left else (self.expr(v, st), st.known[c])
                return '%s %s %s' % (a, op, b)
            # [optional.comp.with.t]: a disengaged optional is less than any value and equal to none
            none = {('left', '<'): 'True', ('left', '<='): 'True', ('left', '>'): 'False', ('left', '>='): 'False',
                    ('right', '<'): 'False', ('right', '<='): 'False', ('right', '>'): 'True', ('right', '>='): 'True',
                    ('left', '=='): 'False', ('right', '=='): 'False', ('left', '!='): 'True', ('right', '!='): 'True'}[
                        (ir[4], ir[1])]
            x = self.fresh('x')
            a, b = (x, self.expr(v, st)) if left else (self.expr(v, st), x)
            return '(match %s with | some %s => %s %s %s | none => %s)' % (self.expr(o, st), x, a, op, b, none)
        if k == 'has':
            c = self.low.canon_ir(ir[1])
            if c in st.known:
                return 'True'
            return '(%s).isSome = true' % self.expr(ir[1], st)
        if self.low.ir_type(ir)[0] == 'bool':
            return '%s = true' % self.expr(ir, st)
        raise ExtractError('condition %s' % k)

    # ---- statements (continuation-passing: what follows an `if` is rendered in both branches)
    def block(self, stmts, st, k):
        stmts = [s for s in stmts if id(s) in self.sl.kept]
        return self.seq(stmts, 0, st, k)

    def assign_into(self, st, loc, name, maybe=False):
        st.env[loc] = name
        st.written.add(loc)
        if maybe:
            st.maybe.add(loc)
        else:
            st.maybe.discard(loc)
        c = self.low.canon_ir(('loc', loc))
        for key in [x for x in st.known if c in x]:
            del st.known[key]

    def simple(self, stmts):
        ks = [s for s in stmts if id(s) in self.sl.kept]
        return all(s[0] == 'assign' for s in ks)

    def seq(self, stmts, i, st, k):
        if i == len(stmts):
            return k(st)
        s = stmts[i]

        def rest(st2):
            return self.seq(stmts, i + 1, st2, k)
        kind = s[0]
        if kind == 'establish':
            st2 = st.copy()
            st2.established.add(s[1])
            return rest(st2)
        if kind == 'assign':
            name = self.locname(s[1])
            rhs = self.expr(s[2], st)
            st2 = st.copy()
            self.assign_into(st2, s[1], name)
            return ['let %s := %s' % (name, rhs)] + rest(st2)
        if kind == 'return':
            if self.loopvar is not None:
                raise ExtractError('return inside the loop')
            return self.final(st)
        if kind == 'throw':
            if any(a is None for a in s[2]):
                raise ExtractError('throw_error "%s": an argument is not a layout value' % s[1])
            return ['.error (%s, [%s])' % (lean_str(s[1]), ', '.join(self.expr(a, st) for a in s[2]))]
        if kind == 'if':
            return self.if_(s, st, rest)
        if kind == 'tcall':
            return self.tcall(s, st, rest)
        if kind == 'for':
            return self.for_(s, st, rest)
        raise ExtractError('cannot render %s' % kind)

    def if_(self, s, st, rest):
        c = s[1]
        neg = False
        while c[0] == 'un' and c[1] == '!':
            neg = not neg
            c = c[2]
        th, el = (s[3], s[2]) if neg else (s[2], s[3])
        if c[0] == 'has' and self.low.canon_ir(c[1]) not in st.known:
            o = self.expr(c[1], st)
            v = self.fresh(re.sub(r'\W', '_', o) + '_v')
            self.used.add(v)
            st_some = st.copy()
            st_some.known[self.low.canon_ir(c[1])] = v
            out = ['match %s with' % o, '| some %s =>' % v] + indent(self.block(th, st_some, rest)) + \
                  ['| none =>'] + indent(self.block(el, st.copy(), rest))
            self.used.discard(v)
            return paren(out)
        if self.simple(s[2]) and self.simple(s[3]):
            # both branches only assign: join the assigned values, then go on once
            cond = self.prop(s[1], st)
            vals = []
            for b in (s[2], s[3]):
                stb = st.copy()
                for a in [x for x in b if id(x) in self.sl.kept]:
                    v = '(%s)' % self.expr(a[2], stb)
                    self.assign_into(stb, a[1], v)
                vals.append(stb)
            locs = []
            for b in (s[2], s[3]):
                for a in b:
                    if id(a) in self.sl.kept and a[1] not in locs:
                        locs.append(a[1])
            st2 = st.copy()
            cols = []
            for loc in locs:
                pair = []
                for stb in vals:
                    if loc not in stb.env or loc in stb.maybe:
                        raise ExtractError('`%s` is assigned in one branch only and has no value before' % self.locname(loc))
                    pair.append(stb.env[loc])
                cols.append(pair)
                self.assign_into(st2, loc, self.locname(loc))
            names = [self.locname(l) for l in locs]
            if len(locs) == 1:
                return ['let %s := if %s then %s else %s' % (names[0], cond, cols[0][0], cols[0][1])] + rest(st2)
            return ['let (%s) := if %s then (%s) else (%s)' % (
                ', '.join(names), cond, ', '.join(c_[0] for c_ in cols), ', '.join(c_[1] for c_ in cols))] + rest(st2)
        cond = self.prop(s[1], st)
        return paren(['if %s then' % cond] + indent(self.block(s[2], st.copy(), rest)) +
                     ['else'] + indent(self.block(s[3], st.copy(), rest)))

    def tcall(self, s, st, rest):
        sig, binds = s[1], s[2]
        ents = dict(('p%d' % i, b[1]) for i, b in enumerate(binds) if b[0] == 'ent')
        args = []
        for key, name, t in sig.inputs:
            if key[0] in ('mem', 'ctx'):
                args.append(self.read_loc((key[0], rebase(key[1], ents), key[2]), st))
            elif key[0] == 'call':
                nk = re.sub(r'\bp(\d+)\b', lambda m: self.low.cpath(ents['p' + m.group(1)]), key[1])
                args.append(self.oracle(('oracle', nk, name, t)))
            else:
                raise ExtractError('%s has a loop: it cannot be called from a translated function' % sig.cname)
        for (kind, _, _), b in zip(sig.params, binds):
            if kind == 'val':
                args.append(self.expr(b[1], st))
            elif kind == 'ref':
                args.append(self.read_loc(b[1], st))
        st2 = st.copy()
        pats = []
        for key, _, t, opt in sig.outputs:
            if key[0] == 'ctx':
                loc = ('ctx', rebase(key[1], ents), key[2])
            elif key[0] == 'ref':
                loc = binds[key[1]][1]
            else:
                raise ExtractError('%s returns a list' % sig.cname)
            pats.append(self.locname(loc))
            self.assign_into(st2, loc, self.locname(loc), maybe=opt)
        err = self.fresh('err')
        pat = pats[0] if len(pats) == 1 else '(%s)' % ', '.join(pats) if pats else '()'
        wrapped = ' '.join(a if re.fullmatch(r'[\w.]+', a) else '(%s)' % a for a in args)
        return paren(['match %s %s with' % (sig.lean, wrapped), '| .error %s => .error %s' % (err, err),
                      '| .ok %s =>' % pat] + indent(rest(st2)))

    def out_value(self, loc, st, optional):
        if not optional:
            return st.env[loc]
        if loc not in st.written:
            return 'none'
        return st.env[loc] if loc in st.maybe else 'some %s' % st.env[loc]

    def for_(self, s, st, rest):
        if self.loop_done or self.loopvar is not None:
            raise ExtractError('more than one loop that the layout depends on')
        var, path, body = s[1], s[2], s[3]
        carried = [loc for loc in st.env if loc[0] == 'local' and loc in assigned_locals(body, self.sl.kept)]
        listname = path[-1]
        self.inputs[('list', self.low.cpath(path))] = (listname, ('list',))
        loopname = '%s.loop' % self.sig.lean
        tail = self.fresh('rest')
        outs = self.fresh('outs')
        err = self.fresh('err')
        self.used |= {tail, outs, err}
        self.loopvar = var
        stb = St(env=dict((c, self.locname(c)) for c in carried))

        def k_body(stl):
            self.leaves.append((set(stl.written), set(stl.maybe)))
            ev = self.elem_value(var, stl)
            cs = [stl.env[c] for c in carried]
            names = [self.locname(c) for c in carried]
            pat = '(%s)' % ', '.join([outs] + names) if names else outs
            res = ', '.join(['%s :: %s' % (ev, outs)] + names)
            return paren(['match %s %s with' % (loopname, ' '.join([tail] + cs)),
                          '| .error %s => .error %s' % (err, err),
                          '| .ok %s => .ok (%s)' % (pat, res)])
        lines = self.block(body, stb, k_body)
        self.loopvar = None
        self.loop_done = True
        names = [self.locname(c) for c in carried]
        self.loop_def = (loopname, var, tail, names, lines)
        st2 = st.copy()
        outname = self.fresh(listname + '_stored')
        st2.listout = outname
        pat = '(%s)' % ', '.join([outname] + names) if names else outname
        return paren(['match %s %s with' % (loopname, ' '.join([listname] + [st.env[c] for c in carried])),
                      '| .error %s => .error %s' % (err, err), '| .ok %s =>' % pat] + indent(rest(st2)))

    def elem_value(self, var, st):
        if self.elem_locs is None:
            return '()'
        vals = [self.out_value(l, st, self.elem_opt[l]) for l in self.elem_locs]
        vals = [v if re.fullmatch(r'[\w.]+', v) else '(%s)' % v for v in vals]
        return vals[0] if len(vals) == 1 else '(%s)' % ', '.join(vals) if vals else '()'

    def final(self, st):
        if self.has_loop and not self.loop_done:
            raise ExtractError('the function can return before its loop')
        self.exits.append((set(st.written), set(st.maybe)))
        if self.out_locs is None:
            return ['.ok ()']
        vals = []
        if self.has_loop:
            vals.append(st.listout)
        vals += [self.out_value(l, st, self.opt_out[l]) for l in self.out_locs]
        for kind, name, _ in self.low.params:
            if kind == 'ref':
                vals.append(st.env[('local', name)])
        if not vals:
            return ['.ok ()']
        return ['.ok %s' % (vals[0] if len(vals) == 1 and re.fullmatch(r'[\w.]+', vals[0]) else '(%s)' % ', '.join(vals))]

    def is_out(self, loc, elem):
        if loc[0] != 'ctx' or loc not in self.sl.taint:
            return False
        on_elem = self.loop_var_name is not None and loc[1][0] == self.loop_var_name
        return on_elem == elem

    def run(self):
        """two passes: the first finds out which context members are written at which exits"""
        self.loop_var_name = next((s[1] for s in self.sl.ir if s[0] == 'for' and id(s) in self.sl.kept), None)
        st0 = St(env=dict((('local', n), n) for k, n, _ in self.low.params if k in ('val', 'ref')))
        self.block(self.sl.ir, st0.copy(), self.final)

        def summarise(points, elem):
            locs = sorted({l for w, _ in points for l in w if self.is_out(l, elem)},
                          key=lambda l: (self.low.cpath(l[1]), l[2]))
            opt = dict((l, any(l not in w or l in m for w, m in points)) for l in locs)
            return locs, opt
        self.out_locs, self.opt_out = summarise(self.exits, False)
        self.elem_locs, self.elem_opt = summarise(self.leaves, True)
        self.exits, self.leaves = [], []
        self.used = set(self.low.all_locals) | set(self.low.role)
        self.inputs, self.elem_inputs = {}, {}
        self.loop_done = False
        self.loopvar = None
        body = self.block(self.sl.ir, st0.copy(), self.final)
        return body


def assigned_locals(stmts, kept):
    out = set()
    for s in stmts:
        if id(s) not in kept:
            continue
        if s[0] == 'assign' and s[1][0] == 'local':
            out.add(s[1])
        elif s[0] == 'tcall':
            for b in s[2]:
                if b[0] == 'ref':
                    out.add(b[1])
        elif s[0] == 'if':
            out |= assigned_locals(s[2], kept) | assigned_locals(s[3], kept)
        elif s[0] == 'for':
            out |= assigned_locals(s[3], kept)
    return out


def lean_str(s):
    return '"' + s.replace('\\', '\\\\').replace('"', '\\"').replace('\n', '\\n') + '"'


# ------------------------------------------------------------------ one function; the module

def pick(fns, cname, selector):
    c = [f for f in fns if f.name == cname]
    if selector is not None:
        c = [f for f in c if selector in f.text.split(')')[0].replace(' ', '')]
    if len(c) != 1:
        raise ExtractError('%d definitions of %s%s' % (len(c), cname, ' (%s)' % selector if selector else ''))
    if c[0].error:
        raise ExtractError(c[0].error)
    return c[0]


def translate(types, fn, lean, sigs, lean_names):
    low = Lower(types, fn, sigs, lean_names)
    ir = low.block(fn.body)
    sl = Slice(low, ir)
    sig = Sig()
    sig.cname, sig.lean, sig.line = fn.name, lean, fn.line
    sig.text = fn.text
    sig.params = low.params
    r = Render(low, sl, sig)
    body = r.run()
    kinds = {'call': 0, 'ctx': 1, 'list': 2, 'mem': 3}
    ins = sorted(r.inputs.items(), key=lambda kv: (kinds[kv[0][0]], kv[0][1:]))
    sig.inputs = [(k, n, t) for k, (n, t) in ins]
    names = [n for _, n, _ in sig.inputs] + [n for k, n, _ in low.params if k != 'ent']
    if len(set(names)) != len(names):
        raise ExtractError('two inputs would get the same Lean name: %s' % names)
    elem_lean = None
    decls = []
    if r.has_loop:
        eins = sorted(r.elem_inputs.items(), key=lambda kv: (kinds[kv[0][0]], kv[0][1:]))
        fnames = [n for _, (n, _) in eins]
        if len(set(fnames)) != len(fnames):
            raise ExtractError('two per-element inputs would get the same Lean name: %s' % fnames)
        item = '%s.Item' % lean
        decls.append('/-- what the loop of `%s` knows about one element when it reaches the layout statements:' % fn.name)
        for k, (n, t) in eins:
            decls.append('    `%s` = %s' % (n, k[1] if k[0] == 'call' else '%s of %s.%s' % (k[0], k[1], k[2])))
        decls[-1] += ' -/'
        decls.append('structure %s where' % item)
        for k, (n, t) in eins:
            decls.append('  %s : %s' % (n, lean_type(t)))
        decls.append('')
        ets = [('Option ' + lean_type(low.loc_type(l, writing=True)) if r.elem_opt[l] else
                lean_type(low.loc_type(l, writing=True))) for l in r.elem_locs]
        ets = [t if ' ' not in t else '(%s)' % t for t in ets]
        elem_lean = ets[0] if len(ets) == 1 else '(%s)' % ' × '.join(ets) if ets else 'Unit'
        loopname, var, tail, carried, lines = r.loop_def
        rty = ' × '.join(['List %s' % elem_lean] + ['Nat'] * len(carried))
        decls.append('/-- the loop of `%s` (hpp:%d): per element what is stored, then the carried running values -/' % (
            fn.name, fn.line))
        decls.append('def %s : List %s%s → Except Thrown (%s)' % (loopname, item, ' → Nat' * len(carried), rty))
        decls.append('  | []%s => .ok (%s)' % (''.join(', ' + c for c in carried), ', '.join(['[]'] + carried)))
        decls.append('  | %s :: %s%s =>' % (var, tail, ''.join(', ' + c for c in carried)))
        decls += indent(lines, 4)
        decls.append('')
    outs = []
    if r.has_loop:
        outs.append((('list',), 'stored', ('list', elem_lean), False))
    for l in r.out_locs:
        outs.append((('ctx', low.cpath(l[1]), l[2]), r.locname(l), low.loc_type(l, writing=True), r.opt_out[l]))
    for i, (k, n, t) in enumerate(low.params):
        if k == 'ref':
            outs.append((('ref', i), n, t, False))
    sig.outputs = outs

    def oty(o):
        if o[0][0] == 'list':
            return 'List %s' % o[2][1]
        t = lean_type(o[2])
        return '(Option %s)' % t if o[3] else t
    rty = ' × '.join(oty(o) for o in outs) if outs else 'Unit'
    ps = []
    for k, n, t in sig.inputs:
        ps.append('(%s : %s)' % (n, 'List %s.Item' % lean if k[0] == 'list' else lean_type(t)))
    for k, n, t in low.params:
        if k != 'ent':
            ps.append('(%s : %s)' % (n, lean_type(t)))
    text = fn.text.replace('-/', '- /')
    doc = ['/-- sbe_schema_validator.hpp:%d  `%s`' % (fn.line, fn.name), text]
    doc.append('inputs: ' + '; '.join('%s = %s' % (n, k[1] if k[0] in ('call', 'list') else '%s of %s.%s' % (k[0], k[1], k[2]))
                                      for k, n, _ in sig.inputs) +
               ('; ' if sig.inputs and any(k != 'ent' for k, _, _ in low.params) else '') +
               ', '.join(n for k, n, _ in low.params if k != 'ent'))
    doc.append('result: ' + ', '.join(('per element: %s' % ', '.join(r.locname(l) for l in r.elem_locs)) if o[0][0] == 'list'
                                      else o[1] + (' (none: not stored)' if o[3] else '') for o in outs) + ' -/')
    decls += doc
    decls.append('def %s %s : Except Thrown (%s) :=' % (lean, ' '.join(ps), rty))
    decls += indent(body)
    sig.lines = decls
    sig.other_rules = sl.other
    sig.wraps = r.wraps
    sig.ir = ir
    return sig


PRELUDE = '''-- GENERATED by /verif/extract/validator_layout.py from %(hpp)s on every check run. Do not edit.
-- The layout arithmetic of sbeppc's schema validator, statement by statement: `validate_element_offset`,
-- `validate_field_offset`, `validate_block_length` and the accumulator skeletons of `validate_encoding(composite)` and
-- `validate_members`.  Only what the layout values depend on is translated ("other rules" are listed in
-- extract_report.json).  C++ typing assumed: offset_t = uint%(off)d, block_length_t = uint%(bl)d (read from sbepp.hpp),
-- std::size_t = uint64: `+`/`+=` wrap (`wrapN`); `std::optional<U>` = `Option Nat`, `*o` only under `if(o)`;
-- `throw_error(fmt, location, args...)` = `.error (leading words of fmt, [args])`; a context member that is not
-- written on every path is returned as `Option` (none = not written).

set_option linter.unusedVariables false

namespace Sbepp.Extracted.ValidatorLayout

/-- a `throw_error`: the leading words of its format string and its numeric arguments -/
abbrev Thrown := String × List Nat
'''


def extract(repo, outdir):
    report = {'source': HPP, 'functions': {}, 'failed': {}, 'other_rules': {}, 'continuations': {}}
    lines = []
    try:
        types = Types(repo)
        src = cxx.strip_comments(open(os.path.join(repo, HPP), encoding='utf-8').read())
        a, b = cxx.find_class_body(src, CLASS)
        toks = tokenize(src[a:b], src.count('\n', 0, a) + 1)
        fns = scan_functions(toks, {t[0] for t in TARGETS})
    except Exception as ex:        # noqa: a check must report this, not crash
        for _, _, lean in TARGETS:
            report['failed'][lean] = 'cannot read the sources: %s: %s' % (type(ex).__name__, ex)
        types, fns = None, []
    sigs = {}
    lean_names = {t[0] for t in TARGETS}
    wraps = set()
    defs = []
    for cname, selector, lean in TARGETS:
        if types is None:
            break
        try:
            fn = pick(fns, cname, selector)
            sig = translate(types, fn, lean, sigs, lean_names)
            if cname == 'validate_block_length':
                check_block_length_continuation(sig, report)
        except ExtractError as ex:
            report['failed'][lean] = str(ex)
            continue
        except Exception as ex:    # noqa: a construct the translator does not foresee is an extraction failure
            report['failed'][lean] = 'internal: %s: %s' % (type(ex).__name__, ex)
            continue
        if selector is None:
            sigs.setdefault(cname, []).append(sig)
        wraps |= sig.wraps
        defs.append(sig)
        code = [l for l in sig.lines if l.startswith(('def ', 'structure ', ' '))]
        report['functions'][lean] = {'line': sig.line, 'sha': hashlib.sha256('\n'.join(code).encode()).hexdigest()[:12],
                                     'inputs': [n for _, n, _ in sig.inputs], 'outputs': [o[1] for o in sig.outputs]}
        report['other_rules'][lean] = sig.other_rules
    if types is not None:
        lines.append(PRELUDE % {'hpp': HPP, 'off': types.bits.get('offset_t', 0), 'bl': types.bits.get('block_length_t', 0)})
        for n in sorted(wraps):
            lines.append('/-- conversion to a %d-bit unsigned type -/' % n)
            lines.append('def wrap%d (n : Nat) : Nat := n %% %d' % (n, 2 ** n))
            lines.append('')
        code = '\n'.join(l for sg in defs for l in sg.lines if l.startswith(('def ', 'structure ', ' ')))
        for en in sorted(types.enums):
            if not re.search(r'\b%s\b' % en, code):
                continue
            lines.append('/-- `enum class %s` (sbepp.hpp) -/' % en)
            lines.append('inductive %s where' % en)
            for c in types.enums[en]:
                lines.append('  | %s' % c)
            lines.append('  deriving DecidableEq, Repr')
            lines.append('')
        for sg in defs:
            lines += sg.lines
            lines.append('')
        lines.append('end Sbepp.Extracted.ValidatorLayout')
    else:
        lines.append('-- GENERATED by /verif/extract/validator_layout.py: the sources could not be read')
    write_if_changed(os.path.join(outdir, OUT), '\n'.join(lines) + '\n')
    return report


def check_block_length_continuation(sig, report):
    """`validate_block_length` ends by handing the stored value to `validate_header_value(level, "blockLength", ...)`
    (a rule of its own, not translated): it must be the last statement and be given exactly that"""
    ir = sig.ir
    last = ir[-1] if ir else None
    want = ('ent:p0', repr('blockLength'), 'ctx:p0.actual_block_length')
    got = None
    if last is not None and last[0] == 'other' and len(last) > 3:
        got = (last[1],) + tuple(last[3])
    report['continuations'][sig.lean] = list(got) if got else None
    if got != ('validate_header_value',) + want:
        raise ExtractError('the last statement is not validate_header_value(level, "blockLength", '
                           'ctx_manager->get(level).actual_block_length): %s' % (got,))
