"""Translator for the layout arithmetic of sbeppc's schema validator
(`sbeppc/src/sbepp/sbeppc/sbe_schema_validator.hpp`):

  validate_element_offset(const T& element, offset_t& current_offset)
  validate_field_offset(const sbe::field& f, offset_t& current_offset)
  validate_block_length(const MessageOrGroup& level, block_length_t actual_block_length)
  validate_encoding(const sbe::composite& c)          -- accumulator skeleton of the element loop
  validate_members(const MessageOrGroup& level)       -- accumulator skeleton of the field loop

Every run re-reads the header, finds the member functions (declaration scanner),
parses their bodies (statement parser -> expression parser -> AST), lowers the AST
to a small IR over *locations* (locals, `entity.member`, `context-of-entity.member`
reached through `ctx_manager->get/create(entity)`, by-reference parameters), slices
the IR to what the layout depends on, and renders the slice as pure Lean functions
(`lean/Sbepp/Extracted/ValidatorLayout.lean`, namespace
`Sbepp.Extracted.ValidatorLayout`, core Lean only).  `Lemmas/ValidatorLayoutTie.lean`
proves the generated functions equal to the step functions of the hand model
(`Schema/Resolve.lean`: `offsetStep`, `blockLengthStep`, ...).

What is a function of the text and what is fixed here
  * Nothing is keyed to the text of a body.  A changed operator, operand, constant,
    callee, argument order, statement order, condition, a dropped/added statement
    that the layout depends on changes the generated term.
  * The *slice*: the layout values are the unsigned scalar parameters (by value or
    by reference) and the unsigned locals passed by reference to a translated
    function ("accumulators") and everything computed from them.  A statement is
    kept when it writes a location the layout values flow into, or a location a
    kept statement reads, when it is a `return`, a call of a translated function
    that receives an accumulator, a `throw_error` under a condition that reads
    layout values, or a compound statement containing a kept one.  Everything else
    ("other rules": names, versions, presence rules, header values, the recursion
    into nested groups ...) is not translated; it is listed in the report
    (`other_rules`).  The generated functions therefore say: *if* the other rules
    let the validator get this far, these are the stored offsets / sizes / block
    lengths, or this `throw_error`.
  * A call of an untranslated function whose result a kept statement reads is an
    *oracle*: an input of the generated function named after the callee (per loop
    element: a field of the generated per-element structure).

C++ typing assumed (read from the sources where possible)
  * `offset_t`, `block_length_t`: read from `using X = std::uintN_t;` in sbepp.hpp;
    `std::size_t`: 64-bit unsigned.  Values of these types are `Nat` below their
    bound; `+`, `+=`, `*`, `-` wrap modulo 2^N of the converted operand type
    (`wrapN`); assignments between equal widths do not convert.
  * `std::optional<U>`: `Option Nat`; `if(o)` / `o.has_value()` test engagement,
    `*o` / `o.value()` is translated only where engagement is known from an enclosing
    test (otherwise the function is reported as failed: possible UB);
    `o < v`, `o == v`, ... between an optional and a value follow
    [optional.comp.with.t] (a disengaged optional is less than every value).
  * member types are read from the struct definitions of `sbe.hpp` and
    `context_manager.hpp`; for a template parameter the member must have one type
    in all structs that have it (for written context members: one scalar width).
  * `enum class field_presence`: enumerators read from sbepp.hpp; `T x{};` of an
    enum is its first enumerator, of an unsigned type 0.
  * `std::visit(lambda, variant)` applies the lambda to the entity held; a range-`for`
    visits the elements in order.
  * `throw_error(fmt, location, args...)` does not return; it is rendered as
    `.error (tag, [args])`, tag = the words of `fmt` after the leading "{}: " up to
    the first placeholder or parenthesis.
"""
import hashlib
import os
import re

from . import cxx
from .cxx import ExtractError
from .kernels import write_if_changed

HPP = 'sbeppc/src/sbepp/sbeppc/sbe_schema_validator.hpp'
SBE_HPP = 'sbeppc/src/sbepp/sbeppc/sbe.hpp'
CTX_HPP = 'sbeppc/src/sbepp/sbeppc/context_manager.hpp'
SBEPP_HPP = 'sbepp/src/sbepp/sbepp.hpp'
CLASS = 'sbe_schema_validator'
OUT = 'ValidatorLayout.lean'

# the member functions translated, in dependency order: (C++ name, selector on the first parameter type or None, Lean name)
TARGETS = [
    ('validate_element_offset', None, 'validate_element_offset'),
    ('validate_field_offset', None, 'validate_field_offset'),
    ('validate_block_length', None, 'validate_block_length'),
    ('validate_encoding', 'sbe::composite', 'validate_encoding_composite'),
    ('validate_members', None, 'validate_members'),
]
# binding of the context manager: `ctx_manager->get(e)` / `->create(e)` denote the context object of entity `e`
CTX_MANAGER = 'ctx_manager'
CTX_ACCESS = ('get', 'create')
THROW = 'throw_error'

# ------------------------------------------------------------------ tokens

TOK = re.compile(r'''
    (?P<ws>\s+)
  | (?P<num>0[xX][0-9a-fA-F']+[uUlL]*|\d[\d']*[uUlL]*)
  | (?P<chr>'(?:[^'\\]|\\.)+')
  | (?P<str>"(?:[^"\\]|\\.)*")
  | (?P<id>[A-Za-z_][A-Za-z_0-9]*)
  | (?P<op><<=|>>=|<=>|->|\+\+|--|<<|>>|<=|>=|==|!=|&&|\|\||\+=|-=|\*=|/=|%=|&=|\|=|\^=|::|[-+*/%<>=!~&|^?:;,.(){}\[\]\#])
''', re.X)


def tokenize(text, base_line=1):
    toks = []
    i = 0
    line = base_line
    while i < len(text):
        m = TOK.match(text, i)
        if not m:
            raise ExtractError('cannot tokenize at: %r' % text[i:i + 30])
        k = m.lastgroup
        if k != 'ws':
            toks.append((k, m.group(k), line))
        line += text.count('\n', i, m.end())
        i = m.end()
    return toks


def int_value(tok):
    m = re.fullmatch(r"(0[xX][0-9a-fA-F']+|\d[\d']*)([uUlL]*)", tok)
    digits = m.group(1).replace("'", '')
    if len(digits) > 1 and digits[0] == '0' and digits[1] not in 'xX':
        return int(digits, 8)
    return int(digits, 0)


def str_value(tok):
    body = tok[1:-1]
    out = []
    i = 0
    esc = {'n': '\n', 't': '\t', '\\': '\\', '"': '"', "'": "'", '0': '\0'}
    while i < len(body):
        if body[i] == '\\' and i + 1 < len(body):
            if body[i + 1] not in esc:
                raise ExtractError('escape \\%s in a string literal' % body[i + 1])
            out.append(esc[body[i + 1]])
            i += 2
        else:
            out.append(body[i])
            i += 1
    return ''.join(out)


BIN = {
    '||': 1, '&&': 2, '|': 3, '^': 4, '&': 5, '==': 6, '!=': 6,
    '<': 7, '<=': 7, '>': 7, '>=': 7, '<<': 8, '>>': 8, '+': 9, '-': 9, '*': 10, '/': 10, '%': 10,
}
ASSIGN_OPS = ('=', '+=', '-=', '*=', '/=', '%=', '&=', '|=', '^=', '<<=', '>>=')


def spell(toks):
    out = ''
    for tok in toks:
        v = tok[1]
        if out and (out[-1].isalnum() or out[-1] == '_') and (v[0].isalnum() or v[0] == '_'):
            out += ' '
        out += v
    return out


class Cursor:
    def __init__(self, toks, i=0):
        self.t = toks
        self.i = i

    def peek(self, k=0):
        j = self.i + k
        return self.t[j] if j < len(self.t) else ('eof', '', -1)

    def next(self):
        tok = self.peek()
        self.i += 1
        return tok

    def at(self, val, k=0):
        p = self.peek(k)
        return p[1] == val and p[0] in ('op', 'id')

    def expect(self, val):
        tok = self.next()
        if tok[1] != val or tok[0] not in ('op', 'id'):
            raise ExtractError('expected %r, got %r near: %s' % (
                val, tok[1], ' '.join(x[1] for x in self.t[max(0, self.i - 8):self.i + 4])))
        return tok

    def skip_balanced(self, open_c, close_c):
        self.expect(open_c)
        depth = 1
        out = []
        while True:
            tok = self.next()
            if tok[0] == 'eof':
                raise ExtractError('unbalanced %s' % open_c)
            if tok[0] == 'op' and tok[1] == open_c:
                depth += 1
            elif tok[0] == 'op' and tok[1] == close_c:
                depth -= 1
                if depth == 0:
                    return out
            elif tok[0] == 'op' and tok[1] == '>>' and close_c == '>':
                depth -= 2
                if depth <= 0:
                    return out
            out.append(tok)


# ------------------------------------------------------------------ AST

class BodyParser(Cursor):
    """Expressions:
      ('num', n) ('bool', b) ('str', s) ('name', 'a::b') ('this',)
      ('call', fn, [args]) ('member', obj, name) ('index', obj, i)
      ('un', op, e) ('bin', op, l, r) ('assign', op, l, r) ('cond', c, a, b)
      ('scast', type, e) ('brace', type|None, [args]) ('lambda', [param names], [stmts])
    Statements:
      ('decl', type-spelling, is_ref, name, init|None, line) ('expr', e, line)
      ('if', c, [then], [else]|None, line) ('return', e|None, line)
      ('rangefor', var, range-expr, [body], line)"""

    def qualified(self):
        parts = []
        if self.at('::'):
            self.next()
        while True:
            k, v, _ = self.next()
            if k != 'id':
                raise ExtractError('identifier expected, got %r' % v)
            parts.append(v)
            if self.at('<') and parts[-1] in ('optional', 'vector', 'get', 'get_if', 'is_same_v', 'holds_alternative'):
                parts[-1] += '<' + spell(self.skip_balanced('<', '>')) + '>'
            if self.at('::') and self.peek(1)[0] == 'id':
                self.next()
                continue
            return '::'.join(parts)

    def expr(self):
        lhs = self.ternary()
        if self.peek()[0] == 'op' and self.peek()[1] in ASSIGN_OPS:
            op = self.next()[1]
            return ('assign', op, lhs, self.expr())
        return lhs

    def ternary(self):
        c = self.binary(1)
        if self.at('?'):
            self.next()
            a = self.expr()
            self.expect(':')
            b = self.expr()
            return ('cond', c, a, b)
        return c

    def binary(self, minp):
        lhs = self.unary()
        while True:
            k, v, _ = self.peek()
            if k != 'op' or v not in BIN or BIN[v] < minp:
                return lhs
            self.next()
            rhs = self.binary(BIN[v] + 1)
            lhs = ('bin', v, lhs, rhs)

    def unary(self):
        k, v, _ = self.peek()
        if k == 'op' and v in ('!', '~', '-', '+', '*', '&', '++', '--'):
            self.next()
            return ('un', v, self.unary())
        return self.postfix()

    def args(self, close):
        out = []
        if self.at(close):
            self.next()
            return out
        while True:
            out.append(self.expr())
            if self.at(','):
                self.next()
                continue
            self.expect(close)
            return out

    def postfix(self):
        e = self.primary()
        while True:
            if self.at('('):
                self.next()
                e = ('call', e, self.args(')'))
            elif self.at('['):
                self.next()
                i = self.expr()
                self.expect(']')
                e = ('index', e, i)
            elif self.at('.') or self.at('->'):
                self.next()
                k, v, _ = self.next()
                if k != 'id':
                    raise ExtractError('member name expected')
                e = ('member', e, v)
            elif self.at('++') or self.at('--'):
                raise ExtractError('postfix %s' % self.peek()[1])
            elif self.at('{') and e[0] == 'name':
                self.next()
                e = ('brace', e[1], self.args('}'))
            else:
                return e

    def lambda_(self):
        """after `[`: captures `]` `(` params `)` [-> type] `{` body `}`"""
        depth = 1
        while depth:
            tok = self.next()
            if tok[0] == 'eof':
                raise ExtractError('unterminated lambda capture')
            if tok[1] == '[':
                depth += 1
            elif tok[1] == ']':
                depth -= 1
        names = []
        if self.at('('):
            ptoks = self.skip_balanced('(', ')')
            names = [p[2] for p in parse_params(ptoks)]
        while not self.at('{'):
            if self.peek()[0] == 'eof':
                raise ExtractError('lambda without a body')
            self.next()
        return ('lambda', names, self.block())

    def primary(self):
        k, v, _ = self.next()
        if k == 'num':
            return ('num', int_value(v))
        if k == 'str':
            s = str_value(v)
            while self.peek()[0] == 'str':
                s += str_value(self.next()[1])
            return ('str', s)
        if k == 'chr':
            raise ExtractError('character literal %s' % v)
        if k == 'op' and v == '(':
            e = self.expr()
            self.expect(')')
            return e
        if k == 'op' and v == '{':
            return ('brace', None, self.args('}'))
        if k == 'op' and v == '[':
            return self.lambda_()
        if k == 'op' and v == '::':
            self.i -= 1
            return ('name', self.qualified())
        if k == 'id':
            if v in ('true', 'false'):
                return ('bool', v == 'true')
            if v == 'this':
                return ('this',)
            if v == 'static_cast':
                ty = spell(self.skip_balanced('<', '>'))
                self.expect('(')
                e = self.expr()
                self.expect(')')
                return ('scast', ty, e)
            if v in ('reinterpret_cast', 'const_cast', 'dynamic_cast', 'sizeof', 'new', 'delete', 'throw', 'operator',
                     'nullptr'):
                raise ExtractError('unsupported expression `%s`' % v)
            self.i -= 1
            return ('name', self.qualified())
        raise ExtractError('unexpected token %r' % v)

    # ---- statements
    def block(self):
        self.expect('{')
        out = []
        while not self.at('}'):
            if self.peek()[0] == 'eof':
                raise ExtractError('unterminated block')
            out.extend(self.stmt())
        self.expect('}')
        return out

    def stmt_or_block(self):
        return self.block() if self.at('{') else self.stmt()

    def decl_head(self):
        """-> (type-spelling, is_ref, name, index after the name) if a declaration starts here, else None.
        [const|static|constexpr]* type-name [<...>] [&|*] identifier ('=' | '{' | ';' | ':')"""
        j = self.i
        t = self.t
        n = len(t)
        while j < n and t[j][0] == 'id' and t[j][1] in ('const', 'static', 'constexpr'):
            j += 1
        start = j
        if j < n and t[j][1] == '::':
            j += 1
        if not (j < n and t[j][0] == 'id'):
            return None
        j += 1
        while j + 1 < n and t[j][1] == '::' and t[j + 1][0] == 'id':
            j += 2
        if j < n and t[j][1] == '<':
            c = Cursor(t, j)
            try:
                c.skip_balanced('<', '>')
            except ExtractError:
                return None
            j = c.i
        ty = spell(t[start:j])
        ref = False
        if j < n and t[j][1] in ('&', '*'):
            if t[j][1] == '*':
                return None
            ref = True
            j += 1
        if j < n and t[j][0] == 'id' and j + 1 < n and t[j + 1][1] in ('=', '{', ';', ':'):
            if ty in ('return', 'else', 'throw', 'goto', 'case', 'new', 'delete'):
                return None
            return ty, ref, t[j][1], j + 1
        return None

    def stmt(self):
        k, v, line = self.peek()
        if k == 'op' and v == ';':
            self.next()
            return []
        if k == 'op' and v == '{':
            return self.block()
        if k == 'id' and v == 'if':
            self.next()
            if self.at('constexpr'):
                raise ExtractError('`if constexpr` (line %d)' % line)
            self.expect('(')
            c = self.expr()
            self.expect(')')
            th = self.stmt_or_block()
            el = None
            if self.at('else'):
                self.next()
                el = self.stmt_or_block()
            return [('if', c, th, el, line)]
        if k == 'id' and v == 'for':
            self.next()
            self.expect('(')
            h = self.decl_head()
            if h is None or self.t[h[3]][1] != ':':
                raise ExtractError('only range-`for` loops are supported (line %d)' % line)
            self.i = h[3] + 1
            rng = self.expr()
            self.expect(')')
            body = self.stmt_or_block()
            return [('rangefor', h[2], rng, body, line)]
        if k == 'id' and v in ('while', 'do', 'switch', 'goto', 'try', 'throw', 'break', 'continue', 'using',
                               'typedef', 'case', 'default'):
            raise ExtractError('unsupported statement `%s` (line %d)' % (v, line))
        if k == 'id' and v == 'return':
            self.next()
            e = None
            if not self.at(';'):
                e = self.expr()
            self.expect(';')
            return [('return', e, line)]
        h = self.decl_head()
        if h is not None and self.t[h[3]][1] != ':':
            ty, ref, name, j = h
            self.i = j
            init = None
            if self.at('='):
                self.next()
                init = self.expr()
            elif self.at('{'):
                self.next()
                init = ('brace', ty, self.args('}'))
            self.expect(';')
            return [('decl', ty, ref, name, init, line)]
        if k == 'id' and v == 'const' and self.at('auto', 1) and self.at('[', 2) or \
                k == 'id' and v == 'auto' and self.at('[', 1):
            raise ExtractError('structured binding (line %d)' % line)
        e = self.expr()
        self.expect(';')
        return [('expr', e, line)]


def parse_params(toks):
    """-> [(type-spelling, is_lvalue_ref, name|None)]"""
    out = []
    if not toks:
        return out
    depth = 0
    cur = []
    for tok in toks + [('op', ',', -1)]:
        if tok[1] in ('<', '(', '{', '['):
            depth += 1
        elif tok[1] in ('>', ')', '}', ']'):
            depth -= 1
        if tok[1] == ',' and depth == 0:
            if any(t[1] == '=' for t in cur):
                raise ExtractError('default argument in %r' % spell(cur))
            ws = [t for t in cur if not (t[0] == 'id' and t[1] in ('const', 'typename', 'volatile'))]
            ref = any(t[1] == '&' for t in ws)
            if any(t[1] in ('&&', '*') for t in ws):
                raise ExtractError('parameter %r: pointer/rvalue-reference parameters are not supported' % spell(cur))
            ws = [t for t in ws if t[1] != '&']
            name = None
            if len(ws) >= 2 and ws[-1][0] == 'id' and (ws[-2][0] == 'id' or ws[-2][1] == '>'):
                name = ws[-1][1]
                ws = ws[:-1]
            if not ws:
                raise ExtractError('empty parameter')
            out.append((spell(ws), ref, name))
            cur = []
        else:
            cur.append(tok)
    return out


class Function:
    def __init__(self):
        self.name = None
        self.line = None
        self.tparams = []
        self.params = []       # [(type-spelling, is_ref, name)]
        self.body = None
        self.text = ''


def scan_functions(toks, wanted):
    """declaration scanner over the tokens of the class body: every member function *definition* whose name is in
    `wanted` -> [Function]"""
    out = []
    c = Cursor(toks)
    depth = 0
    n = len(toks)
    decl_start = 0
    while c.i < n:
        k, v, line = c.peek()
        if k == 'op' and v == '{':
            depth += 1
            c.next()
            continue
        if k == 'op' and v == '}':
            depth -= 1
            c.next()
            decl_start = c.i
            continue
        if depth == 0 and k == 'op' and v == ';':
            c.next()
            decl_start = c.i
            continue
        if depth == 0 and k == 'id' and v in ('public', 'private', 'protected') and c.at(':', 1):
            c.next()
            c.next()
            decl_start = c.i
            continue
        if depth == 0 and k == 'id' and v in wanted and c.at('(', 1):
            f = Function()
            f.name = v
            f.line = line
            head = toks[decl_start:c.i]
            if head and head[0][1] == 'template':
                hc = Cursor(head)
                hc.next()
                tp = hc.skip_balanced('<', '>')
                f.tparams = [tp[j + 1][1] for j in range(len(tp) - 1)
                             if tp[j][1] in ('typename', 'class') and tp[j + 1][0] == 'id']
            c.next()
            ptoks = c.skip_balanced('(', ')')
            while c.peek()[0] == 'id' and c.peek()[1] in ('const', 'noexcept', 'override', 'final'):
                c.next()
            if not c.at('{'):
                continue           # a declaration or a call inside an initialiser
            f.error = None
            try:
                f.params = parse_params(ptoks)
            except ExtractError as ex:
                f.params = []
                f.error = str(ex)
            body_start = c.i
            c.skip_balanced('{', '}')
            if f.error is None:
                try:
                    bp = BodyParser(toks[:c.i], body_start)
                    f.body = bp.block()
                except ExtractError as ex:
                    f.error = str(ex)
            f.text = spell(toks[decl_start:c.i])
            decl_start = c.i
            out.append(f)
            continue
        c.next()
    return out


# ------------------------------------------------------------------ C++ types read from the sources

class Types:
    """scalar widths, struct member types, enumerators -- read from sbepp.hpp, sbe.hpp, context_manager.hpp"""

    def __init__(self, repo):
        def rd(p):
            return cxx.strip_comments(open(os.path.join(repo, p), encoding='utf-8').read())
        sbepp = rd(SBEPP_HPP)
        self.bits = {'std::size_t': 64, 'size_t': 64}
        for n in (8, 16, 32, 64):
            self.bits['std::uint%d_t' % n] = n
            self.bits['uint%d_t' % n] = n
        for m in re.finditer(r'\busing\s+(\w+)\s*=\s*(?:::)?std::uint(8|16|32|64)_t\s*;', sbepp):
            self.bits[m.group(1)] = int(m.group(2))
        self.enums = {}
        for m in re.finditer(r'\benum\s+class\s+(\w+)\s*(?::\s*[\w:]+\s*)?\{([^}]*)\}', sbepp):
            names = [x.strip().split('=')[0].strip() for x in m.group(2).split(',') if x.strip()]
            self.enums[m.group(1)] = names
        self.structs = {}
        for p in (SBE_HPP, CTX_HPP):
            src = rd(p)
            for m in re.finditer(r'\bstruct\s+(\w+)\s*\{', src):
                end = cxx.match_brace(src, m.end() - 1)
                body = src[m.end():end]
                members = {}
                for decl in body.split(';'):
                    decl = decl.strip()
                    if not decl or '(' in decl or decl.startswith(('using', 'struct', 'enum', 'static', 'friend')):
                        continue
                    dm = re.fullmatch(r'(.*?)(\w+)(\s*=.*|\s*\{.*\})?', decl, re.S)
                    if dm and dm.group(1).strip():
                        members[dm.group(2)] = ' '.join(dm.group(1).split())
                self.structs[m.group(1)] = members

    def of_spelling(self, sp):
        """C++ type spelling -> translator type"""
        s = sp.replace('const ', '').replace(' const', '').replace('typename ', '').strip()
        s = re.sub(r'\s+', '', s)
        m = re.fullmatch(r'(?:::)?(?:std::)?optional<(.*)>', s)
        if m:
            inner = self.of_spelling(m.group(1))
            if inner[0] == 'uint':
                return ('opt', inner[1])
            return ('opaque',)
        m = re.fullmatch(r'(?:::)?(?:std::)?vector<(.*)>', s)
        if m:
            inner = self.of_spelling(m.group(1))
            # a vector of variants (`composite_element`) holds entities whose struct is not known statically
            return ('vec', inner[1] if inner[0] == 'struct' else None)
        if s == 'bool':
            return ('bool',)
        if s in self.bits:
            return ('uint', self.bits[s])
        base = s.split('::')[-1]
        if base in self.bits and s in ('sbepp::' + base, '::sbepp::' + base):
            return ('uint', self.bits[base])
        if base in self.enums:
            return ('enum', base)
        if base in self.structs:
            return ('struct', base)
        return ('opaque',)

    def member(self, struct, name, ctx=False, writing=False):
        """type of `<struct>.name`; struct None = a template parameter: all structs that have the member must agree
        (ctx: among the `*_context` structs, else among the others)"""
        if struct is not None:
            if name not in self.structs.get(struct, {}):
                raise ExtractError('struct %s has no member %s' % (struct, name))
            return self.of_spelling(self.structs[struct][name])
        cands = set()
        for sname, ms in self.structs.items():
            if sname.endswith('_context') != ctx:
                continue
            if name in ms:
                cands.add(self.of_spelling(ms[name]))
        if not cands:
            raise ExtractError('no %s struct has a member %s' % ('context' if ctx else 'schema', name))
        if len(cands) > 1:
            widths = {t[1] for t in cands if t[0] in ('uint', 'opt')}
            if writing and len(widths) == 1 and all(t[0] in ('uint', 'opt') for t in cands):
                # an unsigned value stored into `U` or `std::optional<U>`: the stored value is a `U`
                return ('uint', widths.pop())
            raise ExtractError('member %s has different types in different structs: %s' % (name, sorted(cands)))
        return cands.pop()

    def ctx_struct(self, struct):
        """sbe::field -> field_context ..."""
        if struct is None:
            return None
        alias = {'enumeration': 'enumeration_context'}
        n = alias.get(struct, struct + '_context')
        return n if n in self.structs else None


# ------------------------------------------------------------------ lowering: AST -> IR over locations

class Sig:
    """what a translated function reads and writes, in terms of its own parameters"""

    def __init__(self):
        self.cname = None
        self.lean = None
        self.line = None
        self.text = ''
        self.params = []       # [(kind, name, type)] kind: 'ent' | 'val' | 'ref'
        self.inputs = []       # [(key, lean name, type)] key: ('call', canon) | ('ctx', role-path, field) | ('mem', role-path, field)
        self.outputs = []      # [(key, lean name, type, optional?)] key: ('list', ...) | ('ctx', role-path, field) | ('ref', param index)
        self.other_rules = []
        self.lines = []


class Lower:
    def __init__(self, types, fn, sigs, lean_names):
        self.T = types
        self.fn = fn
        self.sigs = sigs               # C++ name -> [Sig] of the functions translated so far
        self.lean_names = lean_names   # C++ names that are (or will be) translated, for the recursion test
        self.locals = {}               # name -> ('var', type) | ('alias', lowered value)
        self.role = {}                 # entity root name -> canonical role
        self.ent_struct = {}           # entity root name -> struct name | None
        self.params = []
        self.nloops = 0
        for i, (ty, ref, name) in enumerate(fn.params):
            if name is None:
                raise ExtractError('unnamed parameter')
            t = ('struct', None) if ty in fn.tparams else types.of_spelling(ty)
            if t[0] == 'struct':
                self.role[name] = 'p%d' % i
                self.ent_struct[name] = t[1]
                self.locals[name] = ('alias', ('ent', (name,), t[1]))
                self.params.append(('ent', name, t))
            elif t[0] == 'uint':
                self.locals[name] = ('var', t)
                self.params.append(('ref' if ref else 'val', name, t))
            else:
                raise ExtractError('parameter %s: type %s is not supported' % (name, ty))

    # ---- canonical (rename-insensitive) spelling of locations and oracle arguments
    def cpath(self, path):
        return '.'.join((self.role[path[0]],) + tuple(path[1:]))

    def canon(self, lv):
        k = lv[0]
        if k == 'ent':
            return 'ent:' + self.cpath(lv[1])
        if k == 'ctxobj':
            return 'ctx:' + self.cpath(lv[1])
        return self.canon_ir(lv[1])

    def canon_ir(self, ir):
        k = ir[0]
        if k == 'num':
            return str(ir[1])
        if k == 'bool':
            return 'true' if ir[1] else 'false'
        if k == 'str':
            return repr(ir[1])
        if k == 'enumc':
            return '%s::%s' % (ir[1], ir[2])
        if k == 'loc':
            loc = ir[1]
            if loc[0] == 'local':
                return 'local:' + loc[1]
            return '%s:%s.%s' % (loc[0], self.cpath(loc[1]), loc[2])
        if k == 'oracle':
            return ir[1]
        if k in ('bin', 'optcmp'):
            return '(%s %s %s)' % (self.canon_ir(ir[2]), ir[1], self.canon_ir(ir[3]))
        if k == 'un':
            return '%s(%s)' % (ir[1], self.canon_ir(ir[2]))
        if k in ('deref', 'has'):
            return '%s(%s)' % (k, self.canon_ir(ir[1]))
        raise ExtractError('cannot spell %r' % (ir,))

    # ---- types
    def loc_type(self, loc, writing=False):
        if loc[0] == 'local':
            b = self.locals.get(loc[1])
            if not b or b[0] != 'var':
                raise ExtractError('`%s` is not a scalar local' % loc[1])
            return b[1]
        path, field = loc[1], loc[2]
        st = self.struct_of(path)
        if loc[0] == 'ctx':
            return self.T.member(self.T.ctx_struct(st), field, ctx=True, writing=writing)
        return self.T.member(st, field)

    def struct_of(self, path):
        st = self.ent_struct[path[0]]
        for f in path[1:]:
            t = self.T.member(st, f)
            if t[0] not in ('struct', 'vec'):
                raise ExtractError('%s is not a struct' % '.'.join(path))
            st = t[1]
        return st

    def ir_type(self, ir):
        k = ir[0]
        if k == 'num':
            return ('int',)
        if k == 'bool':
            return ('bool',)
        if k == 'enumc':
            return ('enum', ir[1])
        if k == 'loc':
            return self.loc_type(ir[1])
        if k == 'oracle':
            return ir[3]
        if k == 'bin':
            if ir[1] in ('==', '!=', '<', '<=', '>', '>=', '&&', '||'):
                return ('bool',)
            a, b = self.ir_type(ir[2]), self.ir_type(ir[3])
            bits = [t[1] for t in (a, b) if t[0] == 'uint']
            if not bits or any(t[0] not in ('uint', 'int') for t in (a, b)):
                raise ExtractError('arithmetic on %s, %s' % (a, b))
            return ('uint', max(bits + [32]) if max(bits) < 32 else max(bits))
        if k in ('optcmp', 'has'):
            return ('bool',)
        if k == 'un':
            if ir[1] == '!':
                return ('bool',)
            raise ExtractError('unary %s' % ir[1])
        if k == 'deref':
            t = self.ir_type(ir[1])
            if t[0] != 'opt':
                raise ExtractError('dereference of a non-optional')
            return ('uint', t[1])
        return ('opaque',)

    # ---- expressions -> lowered values ('val', ir) | ('ent', path, struct) | ('ctxobj', path) | ('opaque', ir)
    def callee_name(self, fn):
        if fn[0] == 'name':
            return fn[1]
        if fn[0] == 'member' and fn[1][0] == 'this':
            return fn[2]
        return None

    def oracle(self, name, args, expect):
        parts = [self.canon(a) for a in args]
        key = '%s(%s)' % (name, ', '.join(parts))
        t = expect if expect is not None else ('opaque',)
        ir = ('oracle', key, name.split('::')[-1], t)
        return ('val', ir) if t[0] != 'opaque' else ('opaque', ir)

    def lower(self, e, expect=None):
        k = e[0]
        if k == 'num':
            return ('val', ('num', e[1]))
        if k == 'bool':
            return ('val', ('bool', e[1]))
        if k == 'str':
            return ('opaque', ('str', e[1]))
        if k == 'name':
            n = e[1]
            if n in self.locals:
                b = self.locals[n]
                if b[0] == 'var':
                    return ('val', ('loc', ('local', n)))
                lv = b[1]
                if lv[0] == 'opaque' and expect is not None and lv[1][0] == 'oracle':
                    o = lv[1]
                    return ('val', ('oracle', o[1], o[2], expect))
                return lv
            parts = n.split('::')
            if len(parts) >= 2 and parts[-2] in self.T.enums and parts[-1] in self.T.enums[parts[-2]]:
                return ('val', ('enumc', parts[-2], parts[-1]))
            return ('opaque', ('oracle', n, parts[-1], ('opaque',)))
        if k == 'member':
            obj = self.lower(e[1])
            if obj[0] == 'ent':
                path = obj[1]
                t = self.T.member(obj[2], e[2])
                if t[0] == 'struct':
                    return ('ent', path + (e[2],), t[1])
                if t[0] == 'vec':
                    return ('ent', path + (e[2],), t[1])
                ir = ('loc', ('mem', path, e[2]))
                return ('val', ir) if t[0] != 'opaque' else ('opaque', ir)
            if obj[0] == 'ctxobj':
                return ('val', ('loc', ('ctx', obj[1], e[2])))
            raise ExtractError('member `%s` of a value the translator does not track' % e[2])
        if k == 'un' and e[1] == '*':
            x = self.lower(e[2])
            if x[0] == 'val' and self.ir_type(x[1])[0] == 'opt':
                return ('val', ('deref', x[1]))
            if x[0] == 'opaque':
                return ('opaque', ('deref', x[1]))
            raise ExtractError('unary * on %s' % x[0])
        if k == 'un' and e[1] == '!':
            x = self.lower(e[2], ('bool',))
            if x[0] != 'val':
                raise ExtractError('! on a value the translator does not track')
            return ('val', ('un', '!', self.as_bool(x[1])))
        if k == 'un':
            raise ExtractError('unary %s' % e[1])
        if k == 'bin':
            op = e[1]
            if op in ('&&', '||'):
                a = self.lower(e[2], ('bool',))
                b = self.lower(e[3], ('bool',))
                if a[0] != 'val' or b[0] != 'val':
                    raise ExtractError('%s on untracked values' % op)
                return ('val', ('bin', op, self.as_bool(a[1]), self.as_bool(b[1])))
            a = self.lower(e[2])
            b = self.lower(e[3])
            if a[0] == 'opaque' and b[0] == 'val':
                a = self.lower(e[2], self.ir_type(b[1]))
            if b[0] == 'opaque' and a[0] == 'val':
                b = self.lower(e[3], self.ir_type(a[1]))
            if a[0] != 'val' or b[0] != 'val':
                raise ExtractError('operator %s on values the translator does not track' % op)
            ta, tb = self.ir_type(a[1]), self.ir_type(b[1])
            if op in ('==', '!=', '<', '<=', '>', '>='):
                if ta[0] == 'opt' and tb[0] in ('uint', 'int'):
                    return ('val', ('optcmp', op, a[1], b[1], 'left'))
                if tb[0] == 'opt' and ta[0] in ('uint', 'int'):
                    return ('val', ('optcmp', op, a[1], b[1], 'right'))
                if ta[0] == 'enum' and tb == ta and op in ('==', '!='):
                    return ('val', ('bin', op, a[1], b[1]))
                if ta[0] in ('uint', 'int') and tb[0] in ('uint', 'int'):
                    return ('val', ('bin', op, a[1], b[1]))
                raise ExtractError('comparison %s between %s and %s' % (op, ta, tb))
            if op in ('+', '-', '*'):
                ir = ('bin', op, a[1], b[1])
                self.ir_type(ir)
                return ('val', ir)
            raise ExtractError('operator %s' % op)
        if k == 'call':
            fn = e[1]
            if fn[0] == 'member' and fn[2] in CTX_ACCESS and fn[1] == ('name', CTX_MANAGER):
                if len(e[2]) != 1:
                    raise ExtractError('%s->%s with %d arguments' % (CTX_MANAGER, fn[2], len(e[2])))
                a = self.lower(e[2][0])
                if a[0] != 'ent':
                    raise ExtractError('%s->%s of a value that is not an entity' % (CTX_MANAGER, fn[2]))
                return ('ctxobj', a[1])
            if fn[0] == 'member' and fn[1][0] != 'this':
                obj = self.lower(fn[1])
                if fn[2] == 'has_value' and not e[2] and obj[0] == 'val' and self.ir_type(obj[1])[0] == 'opt':
                    return ('val', ('has', obj[1]))
                if fn[2] == 'value' and not e[2] and obj[0] == 'val' and self.ir_type(obj[1])[0] == 'opt':
                    return ('val', ('deref', obj[1]))
                args = [obj] + [self.lower(a) for a in e[2]]
                return self.oracle('.' + fn[2], args, expect)
            name = self.callee_name(fn)
            if name is None:
                raise ExtractError('call of a computed function')
            if name in self.lean_names:
                raise ExtractError('value of the translated function %s is used' % name)
            return self.oracle(name, [self.lower(a) for a in e[2]], expect)
        if k == 'scast':
            t = self.T.of_spelling(e[1])
            x = self.lower(e[2])
            if x[0] == 'val' and t[0] == 'uint' and self.ir_type(x[1]) == t:
                return x
            raise ExtractError('static_cast<%s>' % e[1])
        if k == 'brace' and not e[2]:
            raise ExtractError('value-initialisation outside a declaration')
        raise ExtractError('expression %s' % k)

    def as_bool(self, ir):
        t = self.ir_type(ir)
        if t[0] == 'bool':
            return ir
        if t[0] == 'opt':
            return ('has', ir)
        raise ExtractError('%s used as a condition' % (t,))

    def cond(self, e):
        x = self.lower(e, ('bool',))
        if x[0] != 'val':
            raise ExtractError('condition on a value the translator does not track')
        return self.as_bool(x[1])

    # ---- statements
    def block(self, stmts):
        out = []
        for s in stmts:
            try:
                out.extend(self.stmt(s))
            except ExtractError as ex:
                # a statement outside the grammar: harmless if the slice does not need it, fatal otherwise
                out.append(('unparsed', str(ex), s[-1]))
        return out

    def lvalue(self, e):
        x = self.lower(e)
        if x[0] == 'val' and x[1][0] == 'loc':
            return x[1][1]
        raise ExtractError('assignment to something that is not a location')

    def zero(self, t):
        if t[0] == 'uint':
            return ('num', 0)
        if t[0] == 'bool':
            return ('bool', False)
        if t[0] == 'enum':
            return ('enumc', t[1], self.T.enums[t[1]][0])
        raise ExtractError('value-initialisation of %s' % (t,))

    def stmt(self, s):
        k = s[0]
        line = s[-1]
        if k == 'decl':
            _, ty, ref, name, init, _ = s
            if name in self.locals or name in self.role:
                raise ExtractError('`%s` shadows another name' % name)
            if ref:
                if init is None:
                    raise ExtractError('reference without initialiser')
                lv = self.lower(init)
                if lv[0] == 'val':
                    if lv[1][0] != 'loc':
                        raise ExtractError('reference to a temporary')
                    raise ExtractError('reference to a scalar location (`%s`)' % name)
                self.locals[name] = ('alias', lv)
                return []
            t = None if ty == 'auto' else self.T.of_spelling(ty)
            if init is not None and init[0] == 'brace' and not init[2]:
                if t is None:
                    raise ExtractError('auto x{}')
                self.locals[name] = ('var', t)
                return [('assign', ('local', name), self.zero(t), t, line)]
            if init is None:
                raise ExtractError('uninitialised local `%s`' % name)
            if init[0] == 'brace' and len(init[2]) == 1:
                init = init[2][0]
            lv = self.lower(init, t if t and t[0] != 'opaque' else None)
            if lv[0] == 'val':
                it = self.ir_type(lv[1])
                if it[0] == 'int':
                    if t is None or t[0] != 'uint':
                        raise ExtractError('literal initialiser of `%s`' % name)
                    it = t
                if t is not None and t[0] != 'opaque' and t != it:
                    raise ExtractError('`%s`: conversion %s -> %s in a declaration' % (name, it, t))
                self.locals[name] = ('var', it)
                return [('assign', ('local', name), lv[1], it, line)]
            self.locals[name] = ('alias', lv)
            return []
        if k == 'return':
            if s[1] is not None:
                raise ExtractError('return with a value')
            return [('return', line)]
        if k == 'if':
            c = self.cond(s[1])
            saved = dict(self.locals)
            th = self.block(s[2])
            self.locals = dict(saved)
            el = self.block(s[3]) if s[3] is not None else []
            self.locals = saved
            return [('if', c, th, el, line)]
        if k == 'rangefor':
            _, var, rng, body, _ = s
            r = self.lower(rng)
            if r[0] != 'ent':
                raise ExtractError('range of the loop is not a member vector')
            if var in self.locals or var in self.role:
                raise ExtractError('`%s` shadows another name' % var)
            saved = dict(self.locals)
            self.nloops += 1
            self.role[var] = 'it%d' % self.nloops
            t_last = self.T.member(self.struct_of(r[1][:-1]), r[1][-1]) if len(r[1]) > 1 else ('opaque',)
            if t_last[0] != 'vec':
                raise ExtractError('range of the loop is not a std::vector member')
            self.ent_struct[var] = t_last[1]
            self.locals[var] = ('alias', ('ent', (var,), self.ent_struct[var]))
            b = self.block(body)
            self.locals = saved
            return [('for', var, r[1], b, line)]
        if k == 'expr':
            e = s[1]
            if e[0] == 'assign':
                loc = self.lvalue(e[2])
                t = self.loc_type(loc, writing=True)
                rhs = self.lower(e[3], t if t[0] != 'opaque' else None)
                if rhs[0] != 'val':
                    raise ExtractError('assignment of a value the translator does not track')
                ir = rhs[1]
                if e[1] != '=':
                    if e[1] not in ('+=', '-=', '*='):
                        raise ExtractError('operator %s' % e[1])
                    ir = ('bin', e[1][0], ('loc', loc), ir)
                rt = self.ir_type(ir)
                if rt[0] == 'int':
                    rt = t
                if t[0] == 'opt' and rt == ('uint', t[1]):
                    ir = ('some', ir)
                elif rt != t:
                    raise ExtractError('assignment converts %s to %s' % (rt, t))
                return [('assign', loc, ir, t, line)]
            if e[0] == 'call':
                name = self.callee_name(e[1])
                if name == THROW:
                    return [self.throw(e[2], line)]
                if name in ('std::visit', 'visit') and len(e[2]) == 2 and e[2][0][0] == 'lambda':
                    lam = e[2][0]
                    tgt = self.lower(e[2][1])
                    if tgt[0] != 'ent' or len(lam[1]) != 1 or lam[1][0] is None:
                        raise ExtractError('std::visit of something that is not an entity')
                    if lam[1][0] in self.locals or lam[1][0] in self.role:
                        raise ExtractError('`%s` shadows another name' % lam[1][0])
                    if has_return(lam[2]):
                        raise ExtractError('return inside a visited lambda')
                    saved = dict(self.locals)
                    # the lambda parameter denotes the entity held by the variant
                    self.locals[lam[1][0]] = ('alias', tgt)
                    b = self.block(lam[2])
                    self.locals = saved
                    return b
                if name in self.sigs:
                    return [self.tcall(name, e[2], line)]
                if name in self.lean_names:
                    # recursion into another entity (nested groups): the same rules applied elsewhere
                    return [('other', 'recursion: ' + name, line)]
                return [('other', name or 'call', line)]
            return [('other', e[0], line)]
        raise ExtractError('statement %s' % k)

    def throw(self, args, line):
        if not args or args[0][0] != 'str':
            raise ExtractError('throw_error without a literal format string')
        fmt = args[0][1]
        rest = args[1:]
        if fmt.count('{}') != len(rest):
            raise ExtractError('throw_error: %d placeholders, %d arguments' % (fmt.count('{}'), len(rest)))
        body = fmt
        if fmt.startswith('{}: '):
            first = rest[0]
            if not (first[0] == 'member' and first[2] == 'location') and not (first[0] == 'call'):
                raise ExtractError('throw_error: the first argument is not a location')
            body = fmt[4:]
            rest = rest[1:]
        tag = re.split(r'[({]', body)[0].strip()
        irs = []
        for a in rest:
            try:
                x = self.lower(a)
            except ExtractError:
                x = ('opaque', None)
            if x[0] == 'val' and self.ir_type(x[1])[0] in ('uint', 'int'):
                irs.append(x[1])
            else:
                irs.append(None)       # a name, a type ...: not a layout value
        return ('throw', tag, irs, fmt, line)

    def tcall(self, name, args, line):
        cands = self.sigs[name]
        lowered = [self.lower(a) for a in args]
        sig = None
        for c in cands:
            if len(c.params) == len(lowered):
                sig = c
        if sig is None:
            raise ExtractError('call of %s with %d arguments' % (name, len(args)))
        binds = []
        for (kind, pname, pt), lv, a in zip(sig.params, lowered, args):
            if kind == 'ent':
                if lv[0] != 'ent':
                    raise ExtractError('%s: argument `%s` is not an entity' % (name, pname))
                binds.append(('ent', lv[1]))
            elif kind == 'ref':
                if lv[0] != 'val' or lv[1][0] != 'loc' or lv[1][1][0] != 'local' or self.ir_type(lv[1]) != pt:
                    raise ExtractError('%s: by-reference argument `%s` must be a local of the same type' % (name, pname))
                binds.append(('ref', lv[1][1]))
            else:
                if lv[0] != 'val':
                    raise ExtractError('%s: argument `%s` is not tracked' % (name, pname))
                t = self.ir_type(lv[1])
                if t != pt and t[0] != 'int':
                    raise ExtractError('%s: argument `%s` converts %s to %s' % (name, pname, t, pt))
                binds.append(('val', lv[1]))
        return ('tcall', sig, binds, line)


def has_return(stmts):
    for s in stmts:
        if s[0] == 'return':
            return True
        if s[0] == 'if' and (has_return(s[2]) or (s[3] is not None and has_return(s[3]))):
            return True
        if s[0] == 'rangefor' and has_return(s[3]):
            return True
    return False
