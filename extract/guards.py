"""Guard table (C11): for every member function (template) of the runtime
view/array/cursor classes of sbepp.hpp, for the free functions that touch a
buffer, and for every member function that a `fmt` template of the generator
emits: name, signature summary, whether the body reaches a write primitive and
which mechanism rejects it for const byte types.

Output: lean/Sbepp/Extracted/Guards.lean (`guardRows : List GuardRow`; the
types live in Sbepp/Rt/ConstGraph.lean) + a report (dict).

Write primitives recognised in a body (comments stripped):
  set_primitive<..>(DEST, ..)                      handle = Byte* of the view / of the cursor
  std::copy/copy_n/copy_backward/ranges::copy(.., DEST), std::fill/fill_n(DEST, ..),
  std::memcpy(DEST, ..)  with DEST not a local object  handle = element iterator (element_type*)
  `*it = ..`, `x[..] = ..`, `operator[](..) = ..`   handle = element reference
  a call of another function that writes            (callee edge; fixpoint)
`pointer() = ..`, `ptr = ..`, `ptr += ..` move a cursor and are not buffer writes.
"""
import hashlib
import os
import re

from . import cxx

HPP = 'sbepp/src/sbepp/sbepp.hpp'
GEN_DIR = 'sbeppc/src/sbepp/sbeppc'

# class -> which byte the class' own `Byte` parameter is, and API scope
RUNTIME_CLASSES = [
    ('byte_range', 'view', 'api'),
    ('cursor', 'cursor', 'internal'),
    ('init_cursor_wrapper', 'cursor', 'internal'),
    ('init_dont_move_cursor_wrapper', 'cursor', 'internal'),
    ('dont_move_cursor_wrapper', 'cursor', 'internal'),
    ('skip_cursor_wrapper', 'cursor', 'internal'),
    ('composite_base', 'view', 'api'),
    ('message_base', 'view', 'api'),
    ('entry_base', 'view', 'api'),
    ('forward_iterator', 'view', 'api'),
    ('random_access_iterator', 'view', 'api'),
    ('input_iterator', 'view', 'api'),
    ('cursor_range', 'view', 'api'),
    ('flat_group_base', 'view', 'api'),
    ('nested_group_base', 'view', 'api'),
    ('bitset_base', 'value', 'api'),
    ('static_array_ref', 'view', 'api'),
    ('dynamic_array_ref', 'view', 'api'),
]
# documented members of sbepp::cursor (the rest is "undocumented, clients should not use")
CURSOR_PUBLIC = {'cursor', 'operator=', 'pointer'}
CURSORLIKE = {'cursor', 'init_cursor_wrapper', 'init_dont_move_cursor_wrapper', 'dont_move_cursor_wrapper',
              'skip_cursor_wrapper'}

FREE_FUNCS = [
    # name, scope
    ('set_primitive', 'internal'), ('get_primitive', 'internal'),
    ('get_value', 'internal'), ('set_value', 'internal'),
    ('get_static_field_view', 'internal'), ('get_first_dynamic_field_view', 'internal'),
    ('get_dynamic_field_view', 'internal'),
    ('size_bytes', 'api'), ('get_header', 'api'), ('addressof', 'api'),
    ('init_cursor', 'api'), ('init_const_cursor', 'api'),
    ('fill_message_header', 'api'), ('fill_group_header', 'api'),
    ('make_view', 'api'), ('make_const_view', 'api'),
    ('get_by_tag', 'api'), ('set_by_tag', 'api'),
    ('visit', 'api'), ('visit_children', 'api'), ('size_bytes_checked', 'api'),
    ('init', 'api'), ('dont_move', 'api'), ('init_dont_move', 'api'), ('skip', 'api'),
]

# rows that must be found as writers (a vanished/renamed mutator is reported by name)
EXPECT_WRITERS = [
    ('static_array_ref', n) for n in ('assign_string', 'assign_range', 'fill', 'assign', 'pad')
] + [
    ('dynamic_array_ref', n) for n in ('clear', 'resize', 'push_back', 'pop_back', 'erase', 'insert', 'assign',
                                       'assign_string', 'assign_range', 'insert_impl')
] + [
    ('flat_group_base', 'resize'), ('flat_group_base', 'clear'),
    ('nested_group_base', 'resize'), ('nested_group_base', 'clear'),
    ('cursor', 'set_value'), ('cursor', 'set_last_value'),
    ('init_cursor_wrapper', 'set_value'), ('init_dont_move_cursor_wrapper', 'set_value'),
    ('dont_move_cursor_wrapper', 'set_value'),
    ('sbepp', 'set_primitive'), ('sbepp', 'set_value'), ('sbepp', 'fill_message_header'),
    ('sbepp', 'fill_group_header'), ('sbepp', 'set_by_tag'),
]
EXPECT_ROLES = {'gen.setter': 3, 'gen.cursorSetter': 6, 'gen.getter': 4, 'gen.cursorGetter': 6,
                'gen.fillMessageHeader': 1, 'gen.fillGroupHeader': 1, 'gen.byTag[value]': 1,
                'gen.byTag[value,cursor]': 1}


# ------------------------------------------------------------------ text preparation

def strip_preprocessor(src):
    """drop preprocessor lines (with continuations); both branches of #if stay"""
    out = []
    cont = False
    for line in src.split('\n'):
        if cont or line.lstrip().startswith('#'):
            cont = line.rstrip().endswith('\\')
            out.append('')
        else:
            out.append(line)
    return '\n'.join(out)


def fmt_unescape(t):
    """fmt format string -> C++ text: `{{`/`}}` are braces, `{name}` a placeholder identifier"""
    out = []
    i = 0
    n = len(t)
    while i < n:
        c = t[i]
        if c == '{':
            if i + 1 < n and t[i + 1] == '{':
                out.append('{')
                i += 2
                continue
            j = t.find('}', i)
            if j < 0:
                out.append(c)
                i += 1
                continue
            name = t[i + 1:j].split(':')[0].strip() or 'arg'
            out.append('__%s__' % re.sub(r'\W', '_', name))
            i = j + 1
        elif c == '}':
            if i + 1 < n and t[i + 1] == '}':
                out.append('}')
                i += 2
            else:
                out.append('}')
                i += 1
        else:
            out.append(c)
            i += 1
    return ''.join(out)


def norm(s):
    return re.sub(r'\s+', ' ', s).strip()


# ------------------------------------------------------------------ member splitter

def _match(src, i, o, c):
    return cxx.match_brace(src, i, o, c)


def _match_angle(src, i):
    """src[i] == '<' of a template header; returns index of the matching '>'"""
    depth = 0
    n = len(src)
    while i < n:
        ch = src[i]
        if ch == '<':
            depth += 1
        elif ch == '>':
            if src[i - 1] != '-':
                depth -= 1
                if depth == 0:
                    return i
        elif ch == '(':
            i = _match(src, i, '(', ')')
        i += 1
    raise ValueError('unbalanced <')


SKIP_HEADS = re.compile(r'(using|typedef|static_assert|friend\s+class|friend\s+struct|enum)\b')
ACCESS = re.compile(r'(public|private|protected)\s*:')
NAME_RE = re.compile(r'(operator\s*(?:\[\]|->\*?|<=>|[-+*/%^&|~!=<>]{1,3}|,)|~?[A-Za-z_]\w*)\s*$')


def split_members(text, base_line=1, access='public', descend_namespaces=False):
    """yield dicts for every function (definition or declaration) at the top
    level of `text` (a class body or a fmt template); descends into nested
    class bodies"""
    i = 0
    n = len(text)
    acc = access
    while i < n:
        while i < n and text[i] in ' \t\r\n;':
            i += 1
        if i >= n:
            break
        m = ACCESS.match(text, i)
        if m:
            acc = m.group(1)
            i = m.end()
            continue
        start = i
        templates = []
        while True:
            m = re.compile(r'template\s*<').match(text, i)
            if not m:
                break
            j = _match_angle(text, m.end() - 1)
            templates.append(norm(text[i:j + 1]))
            i = j + 1
            while i < n and text[i] in ' \t\r\n':
                i += 1
        head_start = i
        if SKIP_HEADS.match(text, i):
            i = _skip_to_semicolon(text, i)
            continue
        # scan to the first of ( { ; at angle depth 0
        ang = 0
        j = i
        kind = None
        while j < n:
            ch = text[j]
            if ch == '<':
                if not re.search(r'operator\s*<?$', text[head_start:j]):
                    ang += 1
            elif ch == '>':
                if ang > 0 and text[j - 1] != '-':
                    ang -= 1
            elif ch == '(':
                if ang == 0:
                    pre = text[head_start:j]
                    if re.search(r'\b(decltype|noexcept|alignas|sizeof)\s*$', pre):
                        j = _match(text, j, '(', ')')
                    else:
                        kind = 'fn'
                        break
                else:
                    j = _match(text, j, '(', ')')
            elif ch == '{' and ang == 0:
                kind = 'brace'
                break
            elif ch == ';' and ang == 0:
                kind = 'decl'
                break
            j += 1
        if kind is None:
            break
        if kind == 'decl':
            i = j + 1
            continue
        if kind == 'brace':
            head = text[head_start:j]
            k = _match(text, j, '{', '}')
            mcls = re.search(r'\b(class|struct)\s+(\w+)', head)
            mns = re.match(r'\s*(inline\s+)?namespace\b\s*([\w:]*)\s*$', head)
            if mcls:
                for r in split_members(text[j + 1:k], base_line + text.count('\n', 0, j + 1),
                                       'private' if mcls.group(1) == 'class' else 'public'):
                    r.setdefault('nested_in', mcls.group(2))
                    yield r
            elif mns and descend_namespaces:
                for r in split_members(text[j + 1:k], base_line + text.count('\n', 0, j + 1), 'public', True):
                    yield r
            i = k + 1
            continue
        # function-like
        pre = text[head_start:j]
        if re.search(r'operator\s*$', pre):
            # operator(): the parameter list is the next parenthesis
            k = _match(text, j, '(', ')')
            name = 'operator()'
            pre_name = re.sub(r'operator\s*$', '', pre)
            j = k + 1
            while j < n and text[j] in ' \t\r\n':
                j += 1
            if j >= n or text[j] != '(':
                i = _skip_to_semicolon(text, j)
                continue
        else:
            mname = NAME_RE.search(pre)
            if not mname:
                i = _skip_to_semicolon(text, j)
                continue
            name = re.sub(r'\s+', '', mname.group(1))
            pre_name = pre[:mname.start()]
        pend = _match(text, j, '(', ')')
        params = text[j + 1:pend]
        # qualifiers, trailing return, ctor initialisers, body
        k = pend + 1
        quals = []
        trailing = ''
        body = None
        while k < n:
            ch = text[k]
            if ch in ' \t\r\n':
                k += 1
            elif text.startswith('->', k):
                t0 = k + 2
                k = t0
                a = 0
                while k < n:
                    c2 = text[k]
                    if c2 == '(':
                        k = _match(text, k, '(', ')')
                    elif c2 == '<':
                        a += 1
                    elif c2 == '>' and text[k - 1] != '-':
                        a -= 1
                    elif c2 in '{;' and a <= 0:
                        break
                    k += 1
                trailing = norm(text[t0:k])
            elif ch == ':' and not text.startswith('::', k):
                k += 1
                while k < n:
                    while k < n and text[k] in ' \t\r\n,':
                        k += 1
                    m2 = re.compile(r'[\w:]+').match(text, k)
                    if not m2:
                        break
                    k = m2.end()
                    while k < n and text[k] in ' \t\r\n':
                        k += 1
                    if k < n and text[k] == '<':
                        k = _match_angle(text, k) + 1
                    if k < n and text[k] == '{':
                        k = _match(text, k, '{', '}') + 1
                    elif k < n and text[k] == '(':
                        k = _match(text, k, '(', ')') + 1
                    while k < n and text[k] in ' \t\r\n':
                        k += 1
                    if k < n and text[k] == ',':
                        continue
                    break
            elif ch == '{':
                e = _match(text, k, '{', '}')
                body = text[k + 1:e]
                k = e + 1
                break
            elif ch == ';':
                k += 1
                break
            elif ch == '=':
                k = _skip_to_semicolon(text, k)
                quals.append('=default/delete')
                break
            elif ch == '(':
                k = _match(text, k, '(', ')') + 1
            else:
                m2 = re.compile(r'[\w:]+').match(text, k)
                if m2:
                    quals.append(m2.group(0))
                    k = m2.end()
                else:
                    k += 1
        if name not in ('static_assert', 'SBEPP_ASSERT', 'SBEPP_SIZE_CHECK', 'SBEPP_WARNINGS_OFF',
                        'SBEPP_WARNINGS_ON'):
            yield {'templates': templates, 'name': name, 'ret': norm(pre_name), 'params': norm(params),
                   'quals': [q for q in quals if q in ('const', '=default/delete')], 'trailing': trailing,
                   'body': body, 'access': acc, 'line': base_line + text.count('\n', 0, head_start)}
        i = k


def _skip_to_semicolon(text, i):
    n = len(text)
    while i < n:
        ch = text[i]
        if ch == '(':
            i = _match(text, i, '(', ')')
        elif ch == '{':
            i = _match(text, i, '{', '}')
        elif ch == ';':
            return i + 1
        i += 1
    return n


# ------------------------------------------------------------------ analysis of one function

def split_args(s):
    out = []
    depth = 0
    cur = ''
    for ch in s:
        if ch in '(<[{':
            depth += 1
        elif ch in ')>]}':
            depth -= 1
        if ch == ',' and depth == 0:
            out.append(cur.strip())
            cur = ''
        else:
            cur += ch
    if cur.strip():
        out.append(cur.strip())
    return out


def param_kinds(params):
    kinds = []
    for p in split_args(params):
        if re.search(r'\bCursor\s*&|cursor\s*<', p):
            kinds.append('cursor')
        elif re.search(r'_tag\b|\b__tag__\b', p):
            kinds.append('tag')
        elif re.search(r'Args\s*&&\s*\.\.\.', p):
            kinds.append('variadic')
        else:
            kinds.append('value')
    return kinds


def template_guard(templates, trailing):
    """SFINAE guard in the template header.  The direction of the conversion
    guards matters: `enable_if_convertible_t<Byte2, Byte>` (other -> this) and
    `enable_if_cursor_compatible_t/_writeable_t<Byte, CursorByte>` (view ->
    cursor); any other argument order is reported as `misdirected`."""
    t = ' '.join(templates)
    cur2 = r'(?:Byte2|(?:::sbepp::detail::|detail::)?cursor_byte_type_t<\s*Cursor\s*>)'
    if 'enable_if_cursor_writeable_t' in t:
        return 'cursorWriteable' if re.search(r'enable_if_cursor_writeable_t<\s*Byte\s*,\s*' + cur2 + r'\s*>', t) \
            else 'misdirected'
    if 'enable_if_writable_t' in t:
        return 'writable' if re.search(r'enable_if_writable_t<\s*Byte\s*[,>]', t) else 'misdirected'
    if re.search(r'!\s*std::is_const<\s*Byte\s*>::value', t):
        return 'writable'
    if 'enable_if_cursor_compatible_t' in t:
        return 'cursorCompatible' if re.search(r'enable_if_cursor_compatible_t<\s*Byte\s*,\s*' + cur2 + r'\s*>', t) \
            else 'misdirected'
    if 'enable_if_convertible_t' in t:
        return 'convertible' if re.search(r'enable_if_convertible_t<\s*Byte2\s*,\s*Byte\s*>', t) else 'misdirected'
    return 'none'


LOCAL_DEST = re.compile(r'^(std::begin\(\s*arr\s*\)|&\s*\w+)$')
ALGO_DEST_LAST = ('std::copy', 'std::copy_n', 'std::copy_backward', 'std::ranges::copy')
ALGO_DEST_FIRST = ('std::fill', 'std::fill_n', 'std::memcpy')


def call_args(body, pos):
    """pos = index of '(' ; returns list of argument strings"""
    e = cxx.match_brace(body, pos, '(', ')')
    return split_args(body[pos + 1:e])


def direct_writes(body):
    """[(primitive, dest, handle)]"""
    out = []
    for m in re.finditer(r'set_primitive\s*(?:<[^;()]*?>)?\s*\(', body):
        args = call_args(body, m.end() - 1)
        dest = norm(args[0]) if args else ''
        if re.search(r'cursor\s*->\s*pointer\(\)|^ptr\b', dest):
            h = 'cursorPtr'
        else:
            h = 'viewPtr'
        out.append(('set_primitive', dest, h))
    for name in ALGO_DEST_LAST + ALGO_DEST_FIRST:
        for m in re.finditer(re.escape(name) + r'\s*\(', body):
            # do not match std::copy inside std::copy_n / std::copy_backward
            if body[m.start() + len(name)] not in ' (\t\n':
                continue
            args = call_args(body, m.end() - 1)
            if not args:
                continue
            dest = norm(args[-1] if name in ALGO_DEST_LAST else args[0])
            if name == 'std::ranges::copy':
                dest = norm(args[-1])
            if LOCAL_DEST.match(dest):
                continue
            h = 'viewPtr' if dest == 'ptr' else 'element'
            out.append((name, dest, h))
    for m in re.finditer(r'(?<![\w)\]])\*\s*(\w+)\s*=(?!=)', body):
        out.append(('*it =', m.group(1), 'element'))
    for m in re.finditer(r'(operator\[\]\s*\([^()]*\)|\]\s*)\s*=(?!=)', body):
        out.append(('[] =', norm(m.group(0)), 'element'))
    return out


def calls(body, trailing='', free_set_value=True):
    """names of called functions that may matter: same-class calls, member calls
    on a header view, cursor-protocol calls, tag-dispatch calls"""
    out = []
    txt = body + ' ' + trailing
    for m in re.finditer(r'(?:\(\*this\)|operator\(\)|\b\w+|\))\s*\(\s*(?:::)?(?:sbepp::)?(?:detail::)?(\w+_tag)\s*\{\s*\}', txt):
        tag = m.group(1)
        rest = txt[m.end():]
        if tag == 'access_by_tag_tag':
            # the arguments after Tag{}
            e = _find_close(txt, m.start())
            argstr = txt[m.end():e]
            shape = []
            if re.search(r'\bValue\b|\bvalue\b', argstr):
                shape.append('value')
            if re.search(r'\bCursor\b|\bc\b', argstr):
                shape.append('cursor')
            out.append('op(access_by_tag_tag)[%s]' % ','.join(shape))
        else:
            out.append('op(%s)' % tag)
    for m in re.finditer(r'(::sbepp::detail::|detail::)?\b(set_value|set_primitive)\s*<', txt):
        if re.search(r'(\.|->)\s*(template\s+)?$', txt[:m.start()]):
            continue
        if m.group(2) == 'set_value' and not m.group(1) and not free_set_value:
            continue        # unqualified call inside a cursor class: the class' own member (self:: edge)
        out.append('sbepp::' + m.group(2))
    for m in re.finditer(r'\b\w+\s*(?:\.|->)\s*template\s+(\w+)\s*<', txt):
        out.append('Cursor::' + m.group(1))
    for m in re.finditer(r'(?:\bheader\b|get_header_tag\s*\{\s*\}\s*\))\s*\.\s*(\w+)\s*\(\s*([^()]*)\)', txt):
        if m.group(2).strip():
            out.append('gen.setter')
    for m in re.finditer(r'(?<![\w.:>])(?:this\s*->\s*)?([A-Za-z_]\w*)\s*(?:<[^;()<>]*>)?\s*\(', txt):
        out.append('self::' + m.group(1))
    m = re.search(r'return\s+(?:this\s*->\s*)?(__\w+__)\s*\(\s*(?:::)?std::forward<Args>\(args\)\.\.\.\s*\)', txt)
    if m:
        out.append('forwardArgs:' + m.group(1))
    return out


def _find_close(txt, start):
    i = txt.find('(', start)
    # the call parenthesis is the first '(' whose content starts with the tag
    while i >= 0:
        try:
            return cxx.match_brace(txt, i, '(', ')')
        except ValueError:
            return len(txt)
    return len(txt)


def scan_generated_header(raw):
    """member functions of a *generated* header with their template guard and
    the write calls in their bodies (Layer G re-extraction, used per schema by
    the C11 check)"""
    src = strip_preprocessor(cxx.strip_comments(raw))
    out = []
    for fn in split_members(src, 1, 'public', True):
        if fn['body'] is None:
            continue
        body = fn['body']
        w = []
        if re.search(r'::sbepp::detail::set_value\s*<', body):
            w.append('set_value')
        if re.search(r'\.\s*template\s+set_(last_)?value\s*<', body):
            w.append('cursor.set_value')
        if re.search(r'\bheader\s*\.\s*\w+\s*\(\s*[^()\s]', body):
            w.append('header.setter')
        if direct_writes(body):
            w.append('direct')
        out.append({'cls': fn.get('nested_in'), 'name': fn['name'], 'params': fn['params'], 'line': fn['line'],
                    'guard': template_guard(fn['templates'], fn['trailing']), 'writes': w,
                    'kinds': param_kinds(fn['params'])})
    return out


# ------------------------------------------------------------------ extraction

def raw_strings(src):
    """[(text, offset)] of the R"( ... )" literals"""
    out = []
    for m in re.finditer(r'R"\(', src):
        e = src.find(')"', m.end())
        if e > 0:
            out.append((src[m.end():e], m.end()))
    return out


def enclosing_function(src, pos):
    best = None
    for m in re.finditer(r'\b(?:std::string|void|auto)\s+(\w+)\s*\(', src[:pos]):
        best = m.group(1)
    return best or '?'


def mk_row(origin, cls, fn, scope, selfbyte, line, file):
    kinds = param_kinds(fn['params'])
    sig = '%s(%s)%s%s' % (fn['name'], fn['params'], ' const' if 'const' in fn['quals'] else '',
                          (' -> ' + fn['trailing']) if fn['trailing'] else '')
    body = fn['body'] or ''
    return {
        'origin': origin, 'cls': cls, 'name': fn['name'], 'sig': norm(sig)[:300], 'line': line, 'file': file,
        'scope': scope if fn['access'] == 'public' else 'internal', 'access': fn['access'], 'self': selfbyte,
        'kinds': kinds, 'usesCursor': 'cursor' in kinds,
        'takesOtherByte': bool(re.search(r'<\s*Byte2\b', fn['params'])),
        'tguard': template_guard(fn['templates'], fn['trailing']),
        'templates': fn['templates'], 'trailing': fn['trailing'],
        'direct': direct_writes(body), 'calls': calls(body, fn['trailing'], cls not in CURSORLIKE) if (fn['body'] is not None or fn['trailing']) else [],
        'has_body': fn['body'] is not None, 'keys': [], 'nested_in': fn.get('nested_in'),
    }


def first_tag(params):
    ps = split_args(params)
    if ps:
        m = re.search(r'(\w+_tag)\b', ps[0])
        if m:
            return m.group(1)
    return None


def extract(repo, outdir):
    report = {'source': [HPP, GEN_DIR], 'failed': {}, 'notes': []}
    rows = []
    # ---------------- runtime header
    raw = open(os.path.join(repo, HPP), encoding='utf-8').read()
    report['sha256_sbepp_hpp'] = hashlib.sha256(raw.encode()).hexdigest()
    src = strip_preprocessor(cxx.strip_comments(raw))
    for cls, selfbyte, scope in RUNTIME_CLASSES:
        try:
            s, e = cxx.find_class_body(src, cls)
        except (cxx.ExtractError, ValueError) as ex:
            report['failed']['class ' + cls] = str(ex)
            continue
        base_line = src.count('\n', 0, s) + 1
        # `class X {` defaults to private, `struct` to public
        try:
            for fn in split_members(src[s:e], base_line, 'private'):
                if fn.get('nested_in'):
                    continue
                sc = scope
                if cls == 'cursor' and fn['name'] in CURSOR_PUBLIC:
                    sc = 'api'
                r = mk_row('runtime', cls, fn, sc, selfbyte, fn['line'], HPP)
                r['keys'].append('%s::%s' % (cls, fn['name']))
                if cls in CURSORLIKE:
                    r['keys'].append('Cursor::%s' % fn['name'])
                t = first_tag(fn['params']) if fn['name'] == 'operator()' else None
                if t:
                    r['keys'].append('op(%s)' % t)
                rows.append(r)
        except (ValueError, AssertionError, IndexError) as ex:
            report['failed']['members of ' + cls] = repr(ex)
    # free functions
    for fname, scope in FREE_FUNCS:
        found = 0
        pat = re.compile(r'template\s*<(?:[^;{}])*?>\s*(?:[^;{}()]|\bdecltype\s*\([^;{}]*?\))*?\b' + fname + r'\s*\(', re.S)
        pos = 0
        while True:
            m = pat.search(src, pos)
            if not m:
                break
            # the match must start at a declaration boundary
            before = src[:m.start()].rstrip()
            if before and before[-1] not in ';}{':
                pos = m.start() + 8
                continue
            # several template headers in a row would start earlier; keep the last `template` only if the
            # name follows directly
            chunk_start = m.start()
            try:
                first = next(split_members(src[chunk_start:], src.count('\n', 0, chunk_start) + 1), None)
                fns = [first] if first else []
            except (ValueError, AssertionError, IndexError) as ex:
                report['failed']['function ' + fname] = repr(ex)
                break
            if fns and fns[0]['name'] == fname:
                fn = fns[0]
                inside_class = False
                # skip member functions (already covered by the class scan)
                depth_txt = src[:chunk_start]
                # cheap test: is there an unclosed `class ... {` ?  use indentation: free functions start at column 0
                ls = src.rfind('\n', 0, chunk_start) + 1
                if src[ls:chunk_start].strip() == '' and chunk_start - ls > 0:
                    inside_class = True
                if not inside_class:
                    r = mk_row('runtime', 'sbepp', fn, scope, 'view', fn['line'], HPP)
                    r['keys'].append('sbepp::%s' % fname)
                    rows.append(r)
                    found += 1
            pos = m.end()
        if not found:
            report['failed']['function ' + fname] = 'not found'
    # ---------------- definitions of the guards themselves
    defs = []
    nows = lambda x: re.sub(r'\s+', '', x)   # noqa: E731
    for name in ('enable_if_t', 'enable_if_convertible_t', 'enable_if_writable_t', 'enable_if_cursor_compatible_t',
                 'enable_if_cursor_writeable_t', 'apply_cv_qualifiers_t', 'cursor_byte_type_t'):
        m = re.search(r'template\s*<([^;{}]*?)>\s*using\s+' + name + r'\s*=\s*([^;]*);', src)
        if not m:
            report['failed']['alias ' + name] = 'not found'
            continue
        defs.append((name, nows(m.group(1)), nows(m.group(2))))
    try:
        s0, e0 = cxx.find_class_body(src, 'copy_cv_qualifiers')
        for an in ('copy_const_t', 'type'):
            m = re.search(r'using\s+' + an + r'\s*=\s*([^;]*);', src[s0:e0])
            if m:
                defs.append(('copy_cv_qualifiers::' + an, '', nows(m.group(1))))
            else:
                report['failed']['alias copy_cv_qualifiers::' + an] = 'not found'
    except (cxx.ExtractError, ValueError) as ex:
        report['failed']['class copy_cv_qualifiers'] = str(ex)
    for cls in ('static_array_ref', 'dynamic_array_ref'):
        try:
            s0, e0 = cxx.find_class_body(src, cls)
        except (cxx.ExtractError, ValueError):
            continue
        for an in ('element_type', 'reference', 'pointer', 'iterator'):
            m = re.search(r'using\s+' + an + r'\s*=\s*([^;]*);', src[s0:e0])
            if m:
                defs.append(('%s::%s' % (cls, an), '', nows(m.group(1))))
            else:
                report['failed']['alias %s::%s' % (cls, an)] = 'not found'
    report['guard_definitions'] = defs
    # ---------------- generator templates
    gdir = os.path.join(repo, GEN_DIR)
    gen_digest = hashlib.sha256()
    try:
        gfiles = sorted(f for f in os.listdir(gdir) if f.endswith('.hpp'))
    except OSError as ex:
        gfiles = []
        report['failed']['generator sources'] = str(ex)
    ntemplates = 0
    for f in gfiles:
        graw = open(os.path.join(gdir, f), encoding='utf-8').read()
        gen_digest.update(graw.encode())
        for text, off in raw_strings(graw):
            if '(' not in text:
                continue
            ntemplates += 1
            owner = enclosing_function(graw, off)
            line0 = graw.count('\n', 0, off) + 1
            t = cxx.strip_comments(fmt_unescape(text))
            t = re.sub(r'(?m)^\s*(__\w+__)\s*$', r'\1;', t)
            try:
                fns = list(split_members(t, line0))
            except (ValueError, AssertionError, IndexError) as ex:
                report['failed']['template %s:%d (%s)' % (f, line0, owner)] = repr(ex)
                continue
            for fn in fns:
                if fn['body'] is None:
                    continue
                cls = 'gen:%s::%s' % (f.replace('.hpp', ''), owner)
                r = mk_row('generator', cls, fn, 'api', 'view', fn['line'], GEN_DIR + '/' + f)
                r['scope'] = 'api'
                rows.append(r)
    report['sha256_generator'] = gen_digest.hexdigest()
    report['generator_templates_scanned'] = ntemplates

    # ---------------- roles / keys of generated rows
    for r in rows:
        if r['origin'] != 'generator':
            continue
        kinds = [k for k in r['kinds']]
        is_value_class = bool(re.search(r'set_bit_tag|get_bit_tag', ' '.join(c for c in r['calls'])))
        if r['name'] == '__name__':
            if is_value_class or r['cls'].startswith('gen:types_compiler::make_set') or 'const bool' in r['sig']:
                role = 'gen.choiceSetter' if kinds == ['value'] else 'gen.choiceGetter'
            elif kinds == []:
                role = 'gen.getter'
            elif kinds == ['cursor']:
                role = 'gen.cursorGetter'
            elif kinds == ['value']:
                role = 'gen.setter'
            elif kinds == ['value', 'cursor']:
                role = 'gen.cursorSetter'
            else:
                role = 'gen.other'
            r['keys'].append(role)
        elif r['name'] == 'operator()':
            t = first_tag(r['sig'][len('operator()('):])
            if t == 'fill_message_header_tag':
                r['keys'] += ['gen.fillMessageHeader', 'op(fill_message_header_tag)']
            elif t == 'fill_group_header_tag':
                r['keys'] += ['gen.fillGroupHeader', 'op(fill_group_header_tag)']
            elif t == 'access_by_tag_tag':
                r['keys'].append('gen.byTag?')
            elif t:
                r['keys'] += ['gen.op(%s)' % t, 'op(%s)' % t]
        elif r['name'] == '__class_name__':
            r['keys'].append('gen.entryCursorCtor')
        else:
            r['keys'].append('gen.' + r['name'])
    # expand the variadic by-tag forwarder into the four call shapes
    expanded = []
    shape_role = {'': 'gen.getter', 'cursor': 'gen.cursorGetter', 'value': 'gen.setter',
                  'value,cursor': 'gen.cursorSetter'}
    for r in rows:
        fw = [c for c in r['calls'] if c.startswith('forwardArgs:')]
        if r['origin'] == 'generator' and 'gen.byTag?' in r['keys'] and 'variadic' in r['kinds'] and fw:
            for shape, role in shape_role.items():
                q = dict(r)
                q['keys'] = ['gen.byTag[%s]' % shape, 'op(access_by_tag_tag)[%s]' % shape]
                q['kinds'] = ['tag', 'tag'] + ([s for s in shape.split(',') if s])
                q['usesCursor'] = 'cursor' in shape
                q['sig'] = r['sig'] + '  [Args... = (%s)]' % shape
                q['calls'] = [role]
                q['direct'] = []
                expanded.append(q)
        elif r['origin'] == 'generator' and 'gen.byTag?' in r['keys']:
            # non-variadic by-tag accessors (set choices): value objects
            q = dict(r)
            shape = 'value' if 'value' in r['kinds'] else ''
            q['keys'] = ['gen.choiceByTag[%s]' % shape]
            expanded.append(q)
        else:
            expanded.append(r)
    rows = expanded
    for i, r in enumerate(rows):
        r['id'] = i

    # ---------------- callee resolution + fixpoint
    by_key = {}
    for r in rows:
        for k in r['keys']:
            by_key.setdefault(k, []).append(r['id'])
    for r in rows:
        ids = []
        names = []
        for c in r['calls']:
            if c.startswith('forwardArgs:'):
                continue
            if c.startswith('self::'):
                nm = c[6:]
                if r['origin'] == 'runtime' and r['cls'] != 'sbepp':
                    k = '%s::%s' % (r['cls'], nm)
                elif r['origin'] == 'runtime':
                    k = 'sbepp::%s' % nm
                else:
                    continue
            else:
                k = c
            tgt = [t for t in by_key.get(k, []) if t != r['id']]
            if tgt:
                if k not in names:
                    names.append(k)
                for t in tgt:
                    if t not in ids:
                        ids.append(t)
        r['callee_names'] = names
        r['callee_ids_all'] = ids
    # value objects: bitset_base writes its own `bits` member, not the buffer
    for r in rows:
        if r['self'] == 'value':
            r['direct'] = []
    writes = {r['id']: bool(r['direct']) for r in rows}
    changed = True
    while changed:
        changed = False
        for r in rows:
            if not writes[r['id']] and any(writes[t] for t in r['callee_ids_all']):
                writes[r['id']] = True
                changed = True
    depth = {}

    def dep(i, seen=()):
        if i in depth:
            return depth[i]
        if i in seen:
            return 0
        r = rows[i]
        d = 1 + max([dep(t, seen + (i,)) for t in r['callee_ids_all'] if writes[t]] or [0])
        depth[i] = d
        return d
    for r in rows:
        r['writes'] = writes[r['id']]
        r['callee_ids'] = [t for t in r['callee_ids_all'] if writes[t]]
        r['handles'] = sorted({h for (_, _, h) in r['direct']})
        if r['tguard'] != 'none':
            g = r['tguard']
        elif not r['writes']:
            g = 'none'
        elif r['direct']:
            hs = r['handles']
            g = 'constByteElement' if 'element' in hs else 'constBytePointer'
        elif r['trailing'] and 'decltype' in r['trailing']:
            g = 'forwarded'
        else:
            g = 'delegated'
        r['guard'] = g
    maxdepth = max([dep(r['id']) for r in rows] or [1])

    # ---------------- expectations
    for cls, name in EXPECT_WRITERS:
        hit = [r for r in rows if r['cls'] == cls and r['name'] == name]
        if not hit:
            report['failed']['%s::%s' % (cls, name)] = 'not found'
        elif not any(r['writes'] for r in hit):
            report['failed']['%s::%s' % (cls, name)] = 'found, but no write primitive recognised in its body'
    for role, least in EXPECT_ROLES.items():
        cnt = len(by_key.get(role, []))
        if cnt < least:
            report['failed']['generated ' + role] = 'found %d template(s), expected at least %d' % (cnt, least)

    # ---------------- Lean output
    def q(s):
        return '"' + s.replace('\\', '\\\\').replace('"', '\\"').replace('\n', ' ') + '"'
    lines = []
    for r in rows:
        lines.append(
            '  { id := %d, origin := .%s, cls := %s, name := %s, sig := %s, line := %d, scope := .%s,\n'
            '    usesCursor := %s, takesOtherByte := %s, guard := .%s, direct := [%s], callees := [%s],\n'
            '    calleeNames := [%s], keys := [%s], writes := %s }' % (
                r['id'], r['origin'], q(r['cls']), q(r['name']), q(r['sig']), r['line'], r['scope'],
                'true' if r['usesCursor'] else 'false', 'true' if r['takesOtherByte'] else 'false', r['guard'],
                ', '.join('.' + h for h in r['handles']), ', '.join(str(t) for t in r['callee_ids']),
                ', '.join(q(n) for n in r['callee_names']), ', '.join(q(k) for k in r['keys']),
                'true' if r['writes'] else 'false'))
    text = ('-- GENERATED by /verif/extract/guards.py from %s and %s/*.hpp on every check run. Do not edit.\n'
            'import Sbepp.Rt.ConstGraph\n\nnamespace Sbepp.Extracted\nopen Sbepp.Rt.ConstGraph\n\n'
            '/-- recursion depth of the callee graph (+2) -/\ndef guardFuel : Nat := %d\n\n'
            '/-- the definitions of the guard aliases and of the element handle types (whitespace removed) -/\n'
            'def guardDefs : List (String × String × String) := [\n%s\n]\n\n'
            'def guardRows : List GuardRow := [\n%s\n]\n\nend Sbepp.Extracted\n' % (
                HPP, GEN_DIR, maxdepth + 2, ',\n'.join('  (%s, %s, %s)' % (q(a), q(b), q(c)) for a, b, c in defs),
                ',\n'.join(lines)))
    write_if_changed(os.path.join(outdir, 'Guards.lean'), text)
    report['rows'] = len(rows)
    report['writers'] = sum(1 for r in rows if r['writes'])
    report['by_guard'] = {}
    for r in rows:
        if r['writes']:
            report['by_guard'][r['guard']] = report['by_guard'].get(r['guard'], 0) + 1
    report['table'] = [{k: r[k] for k in ('id', 'origin', 'cls', 'name', 'sig', 'line', 'scope', 'access', 'usesCursor',
                                          'takesOtherByte', 'guard', 'handles', 'callee_names', 'callee_ids', 'keys',
                                          'writes')}
                       | {'direct': [list(d) for d in r['direct']]} for r in rows]
    report['fuel'] = maxdepth + 2
    return report


# ------------------------------------------------------------------ Python mirror of `rowGuarded` (diagnostics only)

BYTES = [(b, c) for b in ('char', 'uchar', 'byte') for c in (False, True)]


def _conv(f, t):
    return f[0] == t[0] and (not f[1] or t[1])


def _admits(g, vb, cb):
    if g == 'writable':
        return not vb[1]
    if g == 'cursorWriteable':
        return _conv(vb, cb) and not vb[1] and not cb[1]
    if g == 'cursorCompatible':
        return _conv(vb, cb)
    return True


def can_write(rows, fuel, r, vb, cb):
    if fuel == 0:
        return True
    if not _admits(r['guard'], vb, cb):
        return False
    for h in r['handles']:
        if (h in ('element', 'viewPtr') and not vb[1]) or (h == 'cursorPtr' and not cb[1]):
            return True
    return any(can_write(rows, fuel - 1, rows[i], vb, cb) for i in r['callee_ids'])


def failing_rows(report):
    """rows of the extracted table that violate what `C11.table_guarded` decides;
    used to name the offending overloads when the theorem no longer builds"""
    rows = {r['id']: r for r in report.get('table', [])}
    fuel = report.get('fuel', 10)
    out = []
    for r in rows.values():
        why = []
        if r['guard'] == 'misdirected':
            why.append('guard arguments in an unexpected order')
        if r.get('takesOtherByte') and r['guard'] not in ('convertible', 'cursorCompatible'):
            why.append('takes another instantiation (Byte2) without a conversion guard')
        if r['writes']:
            if r['guard'] == 'none':
                why.append('writes but no rejection mechanism was found')
            if r['origin'] == 'generator' and r['guard'] not in ('writable', 'cursorWriteable', 'forwarded'):
                why.append('generated mutator without a SFINAE guard (guard=%s)' % r['guard'])
            for vb in BYTES:
                for cb in BYTES:
                    if vb[1] and cb[1] and can_write(rows, fuel, r, vb, cb):
                        why.append('can write with view=%s cursor=%s' % (vb, cb))
                    elif r['scope'] == 'api' and (vb[1] or (r['usesCursor'] and cb[1])) and can_write(rows, fuel, r, vb, cb):
                        why.append('public overload can write with view=%s cursor=%s' % (vb, cb))
        if why:
            out.append({'cls': r['cls'], 'name': r['name'], 'sig': r['sig'], 'line': r['line'], 'guard': r['guard'],
                        'why': sorted(set(why))[:4]})
    return out


def write_if_changed(path, text):
    try:
        if open(path, encoding='utf-8').read() == text:
            return False
    except FileNotFoundError:
        pass
    os.makedirs(os.path.dirname(path), exist_ok=True)
    tmp = path + '.tmp%d' % os.getpid()
    with open(tmp, 'w', encoding='utf-8') as f:
        f.write(text)
    os.replace(tmp, path)
    return True
