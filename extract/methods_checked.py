"""Translator for `sbepp::detail::size_bytes_checked_visitor` and the free
function template `sbepp::size_bytes_checked(View, std::size_t)` of sbepp.hpp.

Every run re-reads the class text, parses the data members and every member
function (declaration parser -> statement parser -> expression parser -> AST),
types the AST with the small C++ typing below and renders it into the visitor
DSL of the hand model (`lean/Sbepp/Rt/Checked.lean`, namespace
`Sbepp.Checked.Visitor`): the state monad `VM` over `St`, `load`/`store` for the
visitor's data members, `sizeSub`/`sizeAdd` for `std::size_t` arithmetic, and the
records `View`/`Header` whose fields are the calls the visitor makes into the
rest of the system.

Output: lean/Sbepp/Extracted/CheckedVisitor.lean (namespace
`Sbepp.Extracted.Checked`) + a report (dict).  The generated definitions are tied
to the hand model by `lean/Sbepp/Lemmas/CheckedTie.lean` (`<method>_tie`).

Nothing here is keyed to the text of a body: a changed operator, operand,
constant, callee, argument order, statement order, condition, or a dropped/added
statement changes the generated term.  What IS fixed here is the *binding* of
the C++ names the visitor uses to the DSL (tables `EXTERNAL_*`, `MEMBER_FIELD`):
an unknown callee or data member is an extraction failure of that method.

C++ typing assumed by the renderer
  * `std::size_t` is a 64-bit unsigned type; `a - b` / `a + b` on `std::size_t`
    operands wrap modulo 2^64 (`sizeSub` / `sizeAdd`); comparisons are on the
    values.  Values of that type are `Nat` in Lean; every value that enters (the
    `size` argument, header sizes, `size_bytes(d)`) is supplied by the hand-modelled
    environment already reduced to its `std::size_t` value.
  * `*header.blockLength()` and `d.size()` (`size_type` of a `<data>` view) have an
    unsigned integer type of at most 64 bits, so passing them to a `std::size_t`
    parameter preserves the value (no conversion is rendered).
  * `sizeof(typename T::member)` where `T` is the template type parameter that is
    the declared type of exactly one (named) parameter `p` is a constant of `p`'s
    type: it is rendered as a pure field of the view bound to `p` (table
    `EXTERNAL_SIZEOF`); every other `sizeof` is an extraction failure.
  * a parameter whose type is a template type parameter is a view (`View`) when it
    is the first parameter, the cursor (`Cursor`) when it is declared as an lvalue
    reference, a tag (`Tag`) otherwise: this is the calling convention of
    `sbepp::visit` / `visit_children` (`on_message(view, cursor, tag)` ...).
  * the visitor object itself is the `St` state: `*this`, the local `visitor` and
    the reference returned by `sbepp::visit_children` all denote it (`Self`);
    data members are read with `load` and written with `store`; constructor:
    mem-initialisers and default member initialisers in declaration order.
  * operands are evaluated left to right (the order is unspecified in C++ for most
    operators; no expression of the subject has two operands with side effects on
    the same object), the right operand of `&&`/`||` only when needed.
  * `return {};` is value-initialisation of the declared return type; `return {a, b};`
    is aggregate initialisation in the member order of the result struct (parsed).
"""
import hashlib
import os
import re

from . import cxx
from .cxx import ExtractError
from .kernels import write_if_changed

HPP = 'sbepp/src/sbepp/sbepp.hpp'
CLASS = 'size_bytes_checked_visitor'
FREE = 'size_bytes_checked'
RESULT_STRUCT = 'size_bytes_checked_result'
OUT = 'CheckedVisitor.lean'

# ------------------------------------------------------------------ binding of C++ names to the DSL

# data member -> field of `Sbepp.Checked.St`, with the C++ type it must be declared with
MEMBER_FIELD = {'size': ('size', 'std::size_t'), 'valid': ('valid', 'bool'),
                'group_block_length': ('gbl', 'std::size_t')}

# free functions of the rest of the system: (name without the leading `sbepp::`, argument types) -> (DSL, result type)
EXTERNAL_FREE = {
    ('get_header', ('View',)): ('View.getHeader', 'Header'),
    ('size_bytes', ('Header',)): ('Header.sizeBytes', 'Nat'),
    ('size_bytes', ('View',)): ('View.sizeBytes', 'Nat'),
    ('visit_children', ('View', 'Cursor', 'Self')): ('View.visitChildren', 'Self'),
    ('visit', ('View', 'Cursor', 'Self')): ('View.visit', 'Self'),
    ('addressof', ('View',)): ('View.addressof', 'Ptr'),
    ('init_cursor', ('View',)): ('View.initCursor', 'Cursor'),
    ('detail::get_header_size', ('View',)): ('View.getHeaderSize', 'Nat'),
}
# member functions of foreign objects: (object type, name, argument types) -> (DSL, result type)
EXTERNAL_MEMBER = {
    ('Header', 'blockLength', ()): ('Header.blockLength', 'Num'),
    ('View', 'size', ()): ('View.size', 'Nat'),
}
# `sizeof(typename T::member)` for a parameter of template type `T`: (parameter type, member) -> (DSL, result type);
# a constant of the parameter's type, no action
EXTERNAL_SIZEOF = {
    ('View', 'size_type'): ('View.sizeofSizeType', 'Nat'),
}

# words that may precede a declarator and carry no meaning for the model
DECL_NOISE = {'constexpr', 'inline', 'explicit', 'static', 'friend', 'SBEPP_CPP14_CONSTEXPR', 'SBEPP_CPP17_CONSTEXPR',
              'SBEPP_CPP20_CONSTEXPR', 'SBEPP_CPP17_NODISCARD', 'SBEPP_DEPRECATED', 'SBEPP_CPP17_INLINE_VAR'}

SCALAR_TYPES = {'std::size_t': 'Nat', 'bool': 'Bool', 'void': 'Unit'}
ZERO = {'Nat': '0', 'Bool': 'false'}

# ------------------------------------------------------------------ tokens

TOK = re.compile(r'''
    (?P<ws>\s+)
  | (?P<num>0[xX][0-9a-fA-F']+[uUlL]*|\d[\d']*[uUlL]*)
  | (?P<chr>'(?:[^'\\]|\\.)+')
  | (?P<str>"(?:[^"\\]|\\.)*")
  | (?P<id>[A-Za-z_][A-Za-z_0-9]*)
  | (?P<op><<=|>>=|<=>|->|\+\+|--|<<|>>|<=|>=|==|!=|&&|\|\||\+=|-=|\*=|/=|%=|&=|\|=|\^=|::|[-+*/%<>=!~&|^?:;,.(){}\[\]\#])
''', re.X)


def tokenize(text, base_line=1):
    """-> [(kind, value, line)]"""
    toks = []
    i = 0
    line = base_line
    while i < len(text):
        m = TOK.match(text, i)
        if not m:
            raise ExtractError('cannot tokenize at: %r' % text[i:i + 30])
        k = m.lastgroup
        if k != 'ws':
            toks.append((k, m.group(k), line))
        line += text.count('\n', i, m.end())
        i = m.end()
    return toks


def int_value(tok):
    m = re.fullmatch(r"(0[xX][0-9a-fA-F']+|\d[\d']*)([uUlL]*)", tok)
    digits = m.group(1).replace("'", '')
    if len(digits) > 1 and digits[0] == '0' and digits[1] not in 'xX':
        return int(digits, 8)
    return int(digits, 0)


BIN = {
    '||': 1, '&&': 2, '|': 3, '^': 4, '&': 5, '==': 6, '!=': 6,
    '<': 7, '<=': 7, '>': 7, '>=': 7, '<<': 8, '>>': 8, '+': 9, '-': 9, '*': 10, '/': 10, '%': 10,
}
ASSIGN_OPS = ('=', '+=', '-=', '*=', '/=', '%=', '&=', '|=', '^=', '<<=', '>>=')


class Cursor:
    """token cursor shared by the declaration, statement and expression parsers"""

    def __init__(self, toks, i=0):
        self.t = toks
        self.i = i

    def peek(self, k=0):
        j = self.i + k
        return self.t[j] if j < len(self.t) else ('eof', '', -1)

    def next(self):
        tok = self.peek()
        self.i += 1
        return tok

    def at(self, val, k=0):
        p = self.peek(k)
        return p[1] == val and p[0] in ('op', 'id')

    def expect(self, val):
        tok = self.next()
        if tok[1] != val or tok[0] not in ('op', 'id'):
            raise ExtractError('expected %r, got %r near: %s' % (
                val, tok[1], ' '.join(x[1] for x in self.t[max(0, self.i - 8):self.i + 4])))
        return tok

    def skip_balanced(self, open_c, close_c):
        """at open_c: consume up to and including the matching close_c; returns the tokens in between"""
        self.expect(open_c)
        depth = 1
        out = []
        while True:
            tok = self.next()
            if tok[0] == 'eof':
                raise ExtractError('unbalanced %s' % open_c)
            if tok[0] == 'op' and tok[1] == open_c:
                depth += 1
            elif tok[0] == 'op' and tok[1] == close_c:
                depth -= 1
                if depth == 0:
                    return out
            elif tok[0] == 'op' and tok[1] == '>>' and close_c == '>':
                depth -= 2
                if depth <= 0:
                    return out
            out.append(tok)


def spell(toks):
    out = ''
    for tok in toks:
        v = tok[1]
        if out and (out[-1].isalnum() or out[-1] == '_') and (v[0].isalnum() or v[0] == '_'):
            out += ' '
        out += v
    return out


# ------------------------------------------------------------------ expressions and statements -> AST

class BodyParser(Cursor):
    """Expressions:
      ('num', n) ('bool', b) ('nullptr',) ('this',) ('name', 'a::b')
      ('call', fn-expr, [args]) ('member', obj, name) ('index', obj, i)
      ('un', op, e) ('post', op, e) ('bin', op, l, r) ('assign', op, l, r) ('cond', c, a, b)
      ('scast', type, e) ('brace', typename|None, [args]) ('sizeof_type', 'T::member')
    Statements:
      ('decl', type-spelling, name, init-expr|None, line) ('expr', e, line) ('if', c, [then], [else]|None, line)
      ('return', e|None, line) ('assert', e, line) ('sizecheck', [e], line)"""

    # ---- names
    def qualified(self):
        parts = []
        if self.at('::'):
            self.next()
        while True:
            k, v, _ = self.next()
            if k != 'id':
                raise ExtractError('identifier expected, got %r' % v)
            parts.append(v)
            if self.at('::') and self.peek(1)[0] == 'id':
                self.next()
                continue
            return '::'.join(parts)

    # ---- expressions
    def expr(self):
        lhs = self.ternary()
        if self.peek()[0] == 'op' and self.peek()[1] in ASSIGN_OPS:
            op = self.next()[1]
            return ('assign', op, lhs, self.expr())
        return lhs

    def ternary(self):
        c = self.binary(1)
        if self.at('?'):
            self.next()
            a = self.expr()
            self.expect(':')
            b = self.expr()
            return ('cond', c, a, b)
        return c

    def binary(self, minp):
        lhs = self.unary()
        while True:
            k, v, _ = self.peek()
            if k != 'op' or v not in BIN or BIN[v] < minp:
                return lhs
            self.next()
            rhs = self.binary(BIN[v] + 1)
            lhs = ('bin', v, lhs, rhs)

    def unary(self):
        k, v, _ = self.peek()
        if k == 'op' and v in ('!', '~', '-', '+', '*', '&', '++', '--'):
            self.next()
            return ('un', v, self.unary())
        return self.postfix()

    def args(self, close):
        out = []
        if self.at(close):
            self.next()
            return out
        while True:
            out.append(self.expr())
            if self.at(','):
                self.next()
                continue
            self.expect(close)
            return out

    def postfix(self):
        e = self.primary()
        while True:
            if self.at('('):
                self.next()
                e = ('call', e, self.args(')'))
            elif self.at('['):
                self.next()
                i = self.expr()
                self.expect(']')
                e = ('index', e, i)
            elif self.at('.') or self.at('->'):
                self.next()
                k, v, _ = self.next()
                if k != 'id':
                    raise ExtractError('member name expected')
                e = ('member', e, v)
            elif self.at('++') or self.at('--'):
                e = ('post', self.next()[1], e)
            elif self.at('{') and e[0] == 'name':
                self.next()
                e = ('brace', e[1], self.args('}'))
            else:
                return e

    def primary(self):
        k, v, _ = self.next()
        if k == 'num':
            return ('num', int_value(v))
        if k in ('chr', 'str'):
            raise ExtractError('character/string literal %s' % v)
        if k == 'op' and v == '(':
            e = self.expr()
            self.expect(')')
            return e
        if k == 'op' and v == '{':
            return ('brace', None, self.args('}'))
        if k == 'op' and v == '::':
            self.i -= 1
            return ('name', self.qualified())
        if k == 'id':
            if v in ('true', 'false'):
                return ('bool', v == 'true')
            if v == 'nullptr':
                return ('nullptr',)
            if v == 'this':
                return ('this',)
            if v == 'static_cast':
                ty = spell(self.skip_balanced('<', '>'))
                self.expect('(')
                e = self.expr()
                self.expect(')')
                return ('scast', ty, e)
            if v == 'sizeof':
                # only `sizeof(type-id)` with a (dependent) qualified type name: `sizeof(typename T::size_type)`
                if not self.at('('):
                    raise ExtractError('`sizeof` without parentheses')
                inner = self.skip_balanced('(', ')')
                had_typename = bool(inner) and inner[0][:2] == ('id', 'typename')
                if had_typename:
                    inner = inner[1:]
                ok = bool(inner) and len(inner) % 2 == 1 and all(
                    (t[0] == 'id' if i % 2 == 0 else t[1] == '::') for i, t in enumerate(inner))
                if not ok or len(inner) < 3 or not had_typename:
                    raise ExtractError('unsupported `sizeof(%s)`: only `sizeof(typename T::member)` is' % spell(inner))
                return ('sizeof_type', spell(inner))
            if v in ('reinterpret_cast', 'const_cast', 'dynamic_cast', 'new', 'delete', 'throw', 'operator'):
                raise ExtractError('unsupported expression `%s`' % v)
            self.i -= 1
            return ('name', self.qualified())
        raise ExtractError('unexpected token %r' % v)

    # ---- statements
    def block(self):
        self.expect('{')
        out = []
        while not self.at('}'):
            if self.peek()[0] == 'eof':
                raise ExtractError('unterminated block')
            out.extend(self.stmt())
        self.expect('}')
        return out

    def stmt_or_block(self):
        return self.block() if self.at('{') else self.stmt()

    def decl_follows(self):
        """[const] type-name [&] identifier ('=' | '{' | ';')  -- type-name is a (qualified) name or `auto`"""
        j = self.i
        t = self.t
        n = len(t)
        while j < n and t[j][0] == 'id' and t[j][1] in ('const', 'static', 'constexpr'):
            j += 1
        start = j
        while j < n and (t[j][0] == 'id' or t[j][1] == '::'):
            j += 1
        words = t[start:j]
        if j < n and t[j][1] in ('&', '*') and j + 1 < n and t[j + 1][0] == 'id' and j + 2 < n and \
                t[j + 2][1] in ('=', '{', ';') and words and words[-1][0] == 'id':
            return True
        if len(words) < 2 or words[-1][0] != 'id' or words[-2][0] != 'id':
            return False
        return j < n and t[j][1] in ('=', '{', ';')

    def stmt(self):
        k, v, line = self.peek()
        if k == 'op' and v == ';':
            self.next()
            return []
        if k == 'op' and v == '{':
            return self.block()
        if k == 'id' and v == 'SBEPP_ASSERT':
            self.next()
            self.expect('(')
            e = self.expr()
            self.expect(')')
            self.expect(';')
            return [('assert', e, line)]
        if k == 'id' and v == 'SBEPP_SIZE_CHECK':
            self.next()
            self.expect('(')
            a = self.args(')')
            self.expect(';')
            return [('sizecheck', a, line)]
        if k == 'id' and v == 'if':
            self.next()
            self.expect('(')
            c = self.expr()
            self.expect(')')
            th = self.stmt_or_block()
            el = None
            if self.at('else'):
                self.next()
                el = self.stmt_or_block()
            return [('if', c, th, el, line)]
        if k == 'id' and v in ('for', 'while', 'do', 'switch', 'goto', 'try', 'throw', 'break', 'continue', 'using',
                               'typedef', 'case', 'default'):
            raise ExtractError('unsupported statement `%s` (line %d)' % (v, line))
        if k == 'id' and v == 'return':
            self.next()
            e = None
            if not self.at(';'):
                e = self.expr()
            self.expect(';')
            return [('return', e, line)]
        if self.decl_follows():
            while self.peek()[0] == 'id' and self.peek()[1] in ('const', 'static', 'constexpr'):
                self.next()
            ty = self.qualified()
            if self.at('&') or self.at('*'):
                ty += self.next()[1]
            name = self.next()[1]
            init = None
            if self.at('='):
                self.next()
                init = self.expr()
            elif self.at('{'):
                self.next()
                init = ('brace', ty, self.args('}'))
            self.expect(';')
            return [('decl', ty, name, init, line)]
        e = self.expr()
        self.expect(';')
        return [('expr', e, line)]


# ------------------------------------------------------------------ declarations

class Function:
    def __init__(self):
        self.name = None
        self.line = None
        self.tparams = []      # names of the template type parameters
        self.ret = None        # spelling of the return type ('' for a constructor)
        self.params = []       # [(type-spelling, is_lvalue_ref, name|None)]
        self.const = False
        self.inits = []        # constructor: [(member, [expr])]
        self.body = None       # [stmt]
        self.text = ''         # source text (normalised) for the comment


def parse_template_header(c):
    """at `template`: -> names of the type parameters"""
    c.expect('template')
    toks = c.skip_balanced('<', '>')
    names = []
    depth = 0
    cur = []
    for tok in toks + [('op', ',', -1)]:
        if tok[1] in ('<', '(', '{'):
            depth += 1
        elif tok[1] in ('>', ')', '}'):
            depth -= 1
        if tok[1] == ',' and depth == 0:
            # `typename T`, `class T`, `typename T = X`, `typename = enable_if…` (unnamed), `std::size_t N`
            eq = next((i for i, t in enumerate(cur) if t[1] == '='), len(cur))
            head = cur[:eq]
            if head and head[0][1] in ('typename', 'class') and len(head) >= 2 and head[-1][0] == 'id':
                names.append(head[-1][1])
            cur = []
        else:
            cur.append(tok)
    return names


def parse_params(toks):
    out = []
    if not toks:
        return out
    depth = 0
    cur = []
    for tok in toks + [('op', ',', -1)]:
        if tok[1] in ('<', '(', '{', '['):
            depth += 1
        elif tok[1] in ('>', ')', '}', ']'):
            depth -= 1
        if tok[1] == ',' and depth == 0:
            if any(t[1] == '=' for t in cur):
                raise ExtractError('default argument in %r' % spell(cur))
            ws = [t for t in cur if not (t[0] == 'id' and t[1] in ('const', 'typename', 'volatile'))]
            ref = any(t[1] == '&' for t in ws)
            if any(t[1] in ('&&', '*') for t in ws):
                raise ExtractError('parameter %r: pointer/rvalue-reference parameters are not supported' % spell(cur))
            ws = [t for t in ws if t[1] != '&']
            # type = (qualified) name; a trailing extra identifier is the parameter name
            name = None
            if len(ws) >= 2 and ws[-1][0] == 'id' and ws[-2][0] == 'id':
                name = ws[-1][1]
                ws = ws[:-1]
            if not ws:
                raise ExtractError('empty parameter')
            out.append((spell(ws), ref, name))
            cur = []
        else:
            cur.append(tok)
    return out


def parse_function_at(c, class_name=None):
    """c is at the first token of a declaration that turns out to be a function *definition*;
    returns a Function or None (after skipping a non-function declaration)"""
    f = Function()
    start = c.i
    f.line = c.peek()[2]
    if c.at('template'):
        f.tparams = parse_template_header(c)
    head = []
    while True:
        k, v, _ = c.peek()
        if k == 'eof':
            raise ExtractError('unterminated declaration')
        if k == 'op' and v in ('(', ';', '{', '='):
            break
        head.append(c.next())
    if not c.at('('):
        c.i = start
        return None
    head = [t for t in head if not (t[0] == 'id' and (t[1] in DECL_NOISE or t[1].startswith('SBEPP_')))]
    if not head or head[-1][0] != 'id':
        raise ExtractError('cannot find the function name before `(`: %r' % spell(head))
    f.name = head[-1][1]
    f.ret = spell(head[:-1])
    if f.ret == '' and f.name != class_name:
        raise ExtractError('%s: no return type' % f.name)
    f.params = parse_params(c.skip_balanced('(', ')'))
    # cv / noexcept / trailing return / mem-initialisers
    while not c.at('{'):
        k, v, _ = c.peek()
        if k == 'eof' or (k == 'op' and v == ';'):
            c.i = start
            return None            # a declaration without body
        if k == 'id' and v == 'const':
            f.const = True
            c.next()
        elif k == 'id' and v == 'noexcept':
            c.next()
            if c.at('('):
                c.skip_balanced('(', ')')
        elif k == 'op' and v == '->':
            c.next()
            ret = []
            while not (c.at('{') or c.at(';')):
                ret.append(c.next())
            f.ret = spell(ret)
        elif k == 'op' and v == ':':
            c.next()
            while True:
                mname = c.next()
                if mname[0] != 'id':
                    raise ExtractError('mem-initialiser: member name expected')
                close = '}' if c.at('{') else ')'
                bp = BodyParser(c.t, c.i)
                bp.next()
                a = bp.args(close)
                c.i = bp.i
                f.inits.append((mname[1], a))
                if c.at(','):
                    c.next()
                    continue
                break
        else:
            raise ExtractError('%s: unexpected %r between the parameter list and the body' % (f.name, v))
    bp = BodyParser(c.t, c.i)
    f.body = bp.block()
    f.text = spell(c.t[start:bp.i])
    c.i = bp.i
    return f


class DataMember:
    def __init__(self, ty, name, init, line):
        self.ty, self.name, self.init, self.line = ty, name, init, line


def parse_class(toks, class_name):
    """-> ([DataMember] in declaration order, {name: [Function]}, {name: reason})"""
    c = Cursor(toks)
    members = []
    funcs = {}
    failed = {}
    while c.peek()[0] != 'eof':
        k, v, line = c.peek()
        if k == 'id' and v in ('public', 'private', 'protected') and c.at(':', 1):
            c.next()
            c.next()
            continue
        if k == 'op' and v == ';':
            c.next()
            continue
        if k == 'id' and v in ('using', 'typedef', 'friend', 'static_assert', 'enum', 'struct', 'class', 'union'):
            raise ExtractError('unsupported member declaration `%s` (line %d)' % (v, line))
        start = c.i
        try:
            f = parse_function_at(c, class_name)
        except ExtractError as ex:
            # find the name to report, then skip the definition
            c.i = start
            name = skip_declaration(c)
            failed[name or ('line %d' % line)] = str(ex)
            continue
        if f is not None:
            funcs.setdefault(f.name, []).append(f)
            continue
        # data member: type name [{init}] ;   or   type name = init ;
        ws = []
        while not (c.at(';') or c.at('{') or c.at('=')):
            if c.peek()[0] == 'eof':
                raise ExtractError('unterminated member declaration (line %d)' % line)
            ws.append(c.next())
        ws = [t for t in ws if not (t[0] == 'id' and t[1] in ('mutable',))]
        if len(ws) < 2 or ws[-1][0] != 'id':
            raise ExtractError('cannot parse the member declaration %r (line %d)' % (spell(ws), line))
        init = None
        if c.at('{') or c.at('='):
            bp = BodyParser(c.t, c.i)
            if bp.at('{'):
                bp.next()
                init = bp.args('}')
            else:
                bp.next()
                init = [bp.expr()]
            c.i = bp.i
        c.expect(';')
        members.append(DataMember(spell(ws[:-1]), ws[-1][1], init, line))
    return members, funcs, failed


def skip_declaration(c):
    """skip one declaration/definition; returns the identifier before the first `(` if any"""
    name = None
    depth = 0
    seen_paren = False
    while True:
        k, v, _ = c.peek()
        if k == 'eof':
            return name
        if k == 'op' and v in ('(', '[', '<') and depth == 0 and v == '(' and not seen_paren:
            seen_paren = True
            prev = c.t[c.i - 1] if c.i else None
            if prev and prev[0] == 'id':
                name = prev[1]
        if k == 'op' and v == '{':
            c.skip_balanced('{', '}')
            if seen_paren:
                return name
            continue
        if k == 'op' and v == ';':
            c.next()
            return name
        c.next()


# ------------------------------------------------------------------ typing and rendering

def camel(name):
    parts = name.split('_')
    return parts[0] + ''.join(p[:1].upper() + p[1:] for p in parts[1:])


LEAN_KEYWORDS = {'at', 'end', 'from', 'fun', 'have', 'show', 'then', 'else', 'if', 'do', 'let', 'in', 'with', 'match',
                 'open', 'def', 'theorem', 'namespace', 'section', 'variable', 'instance', 'class', 'structure', 'where',
                 'return', 'for', 'unless', 'try', 'catch', 'finally', 'mut', 'by', 'calc', 'Type', 'Prop', 'Sort',
                 'get', 'set', 'load', 'store', 'pure', 'bind', 'decide', 'ctor', 'self', 'deriving', 'import',
                 'macro', 'syntax', 'notation', 'infix', 'prefix', 'postfix', 'universe', 'export', 'private',
                 'protected', 'partial', 'unsafe', 'noncomputable', 'mutual', 'inductive', 'abbrev', 'example',
                 'axiom', 'opaque', 'attribute', 'extends', 'using', 'nomatch', 'nofun', 'suffices', 'obtain', 'exists'}


class Renderer:
    """types and renders one function body.  Every sub-expression is rendered as (pure Lean term, type) after emitting
    the monadic actions it needs as `let x ← …` lines (A-normal form, C++ evaluation order)."""

    def __init__(self, own, members, result_fields, tparams, self_type):
        self.own = own                    # own member functions: name -> (param types, return type)
        self.members = members            # data member name -> (St field, Lean type)
        self.result_fields = result_fields  # [(name, Lean type)] of the result struct
        self.tparams = set(tparams)
        self.self_type = self_type        # spelling(s) of the visitor class
        self.lines = []
        self.ind = 1
        self.locals = [{}]
        self.ntmp = 0
        self.used = set()
        self.ret_type = None
        self.in_member = True
        self.param_of_type = {}           # template type parameter -> [(Lean identifier|None, Lean type)] of the parameters declared with it

    # ---- output
    def emit(self, s):
        self.lines.append('  ' * self.ind + s)

    def tmp(self):
        while True:
            self.ntmp += 1
            n = 't%d' % self.ntmp
            if n not in self.used:
                self.used.add(n)
                return n

    def ident(self, name):
        n = name
        if n in LEAN_KEYWORDS or re.fullmatch(r't\d+', n):
            n = n + "'"
        return n

    def lookup(self, name):
        for sc in reversed(self.locals):
            if name in sc:
                return sc[name]
        return None

    def declare(self, name, ty):
        self.locals[-1][name] = (self.ident(name), ty)
        self.used.add(self.ident(name))
        return self.ident(name)

    # ---- types
    def lean_type(self, spelling, ref=False, first=False):
        s = spelling
        if s in SCALAR_TYPES:
            if ref:
                raise ExtractError('reference to %s' % s)
            return SCALAR_TYPES[s]
        if s in self.tparams:
            if ref:
                return 'Cursor'
            return 'View' if first else 'Tag'
        if s == RESULT_STRUCT:
            return 'SbcResult'
        if s in self.self_type:
            return 'Self'
        raise ExtractError('unknown type %r' % s)

    def zero(self, ty):
        if ty in ZERO:
            return ZERO[ty]
        if ty == 'SbcResult':
            return '{ ' + ', '.join('%s := %s' % (n, ZERO[t]) for n, t in self.result_fields) + ' }'
        raise ExtractError('value-initialisation of %s' % ty)

    def to_bool(self, term, ty):
        if ty == 'Bool':
            return term
        if ty == 'Ptr':
            return '(Ptr.toBool %s)' % term
        raise ExtractError('a value of type %s is used as a condition' % ty)

    # ---- expressions
    def norm_free(self, name):
        n = name
        for pre in ('::sbepp::', 'sbepp::'):
            if n.startswith(pre):
                n = n[len(pre):]
        return n

    def bind(self, action):
        t = self.tmp()
        self.emit('let %s ← %s' % (t, action))
        return t

    def call_own(self, name, args):
        if name not in self.own:
            raise ExtractError('call of unknown member function %s' % name)
        ptys, rty = self.own[name]
        if len(args) != len(ptys):
            raise ExtractError('%s: %d arguments for %d parameters' % (name, len(args), len(ptys)))
        terms = []
        for a, pty in zip(args, ptys):
            term, ty = self.expr(a)
            if ty != pty:
                raise ExtractError('%s: argument of type %s for a parameter of type %s' % (name, ty, pty))
            terms.append(term)
        return ' '.join([lean_name(name)] + [paren(t) for t in terms]), rty

    def expr(self, e):
        """-> (pure term, type); actions are emitted before"""
        k = e[0]
        if k == 'num':
            return str(e[1]), 'Nat'
        if k == 'bool':
            return ('true' if e[1] else 'false'), 'Bool'
        if k == 'nullptr':
            return 'Ptr.null', 'Ptr'
        if k == 'name':
            loc = self.lookup(e[1])
            if loc is not None:
                return loc
            if self.in_member and e[1] in self.members:
                field, ty = self.members[e[1]]
                return self.bind('load (·.%s)' % field), ty
            raise ExtractError('unknown identifier %s' % e[1])
        if k == 'un':
            op, a = e[1], e[2]
            if op == '*' and a == ('this',):
                if not self.in_member:
                    raise ExtractError('`this` outside a member function')
                return 'Self.this', 'Self'
            term, ty = self.expr(a)
            if op == '!':
                return '(!%s)' % self.to_bool(term, ty), 'Bool'
            if op == '*' and ty == 'Num':
                return '(Num.value %s)' % term, 'Nat'
            raise ExtractError('unary %s on %s' % (op, ty))
        if k == 'bin':
            op = e[1]
            if op in ('&&', '||'):
                lt, lty = self.expr(e[2])
                lt = self.to_bool(lt, lty)
                # right operand: evaluated only when needed
                saved = self.lines
                self.lines = []
                self.ind += 1
                rt, rty = self.expr(e[3])
                rt = self.to_bool(rt, rty)
                inner = self.lines
                self.ind -= 1
                self.lines = saved
                if not inner:
                    return '(%s %s %s)' % (lt, op, rt), 'Bool'
                t = self.tmp()
                short = 'true' if op == '||' else 'false'
                cond = lt if op == '||' else '(!%s)' % lt
                self.emit('let %s ← (if %s then pure %s else do' % (t, cond, short))
                self.lines.extend(inner)
                self.emit('  pure %s)' % rt)
                return t, 'Bool'
            lt, lty = self.expr(e[2])
            rt, rty = self.expr(e[3])
            if lty == 'Nat' and rty == 'Nat':
                if op in ('<', '<=', '>', '>=', '==', '!='):
                    lop = {'<': '<', '<=': '≤', '>': '>', '>=': '≥', '==': '=', '!=': '≠'}[op]
                    return '(decide (%s %s %s))' % (lt, lop, rt), 'Bool'
                if op == '-':
                    return '(sizeSub %s %s)' % (lt, rt), 'Nat'
                if op == '+':
                    return '(sizeAdd %s %s)' % (lt, rt), 'Nat'
                raise ExtractError('operator %s on std::size_t is not supported' % op)
            if lty == 'Bool' and rty == 'Bool' and op in ('==', '!='):
                return '(%s %s %s)' % (lt, op, rt), 'Bool'
            raise ExtractError('operator %s on %s and %s' % (op, lty, rty))
        if k == 'sizeof_type':
            parts = e[1].split('::')
            if len(parts) != 2 or parts[0] not in self.tparams:
                raise ExtractError('sizeof(typename %s): not a member type of a template type parameter' % e[1])
            ps = self.param_of_type.get(parts[0], [])
            if len(ps) != 1 or ps[0][0] is None:
                raise ExtractError('sizeof(typename %s): %s is not the type of exactly one named parameter' % (e[1], parts[0]))
            ident, pty = ps[0]
            key = (pty, parts[1])
            if key not in EXTERNAL_SIZEOF:
                raise ExtractError('sizeof(typename %s) on a %s is not part of the visitor interface' % (e[1], pty))
            dsl, rty = EXTERNAL_SIZEOF[key]
            return '(%s %s)' % (dsl, ident), rty
        if k == 'cond':
            raise ExtractError('conditional operator')
        if k == 'call':
            fn, args = e[1], e[2]
            if fn[0] == 'name':
                if self.in_member and fn[1] in self.own and self.lookup(fn[1]) is None:
                    action, rty = self.call_own(fn[1], args)
                    return self.bind(action), rty
                targs = [self.expr(a) for a in args]
                key = (self.norm_free(fn[1]), tuple(t for _, t in targs))
                if key not in EXTERNAL_FREE:
                    raise ExtractError('call of %s(%s) is not part of the visitor interface' % (fn[1], ', '.join(key[1])))
                dsl, rty = EXTERNAL_FREE[key]
                return self.bind(' '.join([dsl] + [paren(t) for t, _ in targs])), rty
            if fn[0] == 'member':
                obj, oty = self.expr(fn[1])
                if oty == 'Self':
                    action, rty = self.call_own(fn[2], args)
                    return self.bind(action), rty
                targs = [self.expr(a) for a in args]
                key = (oty, fn[2], tuple(t for _, t in targs))
                if key not in EXTERNAL_MEMBER:
                    raise ExtractError('member call %s.%s(%s) is not part of the visitor interface' % (
                        oty, fn[2], ', '.join(key[2])))
                dsl, rty = EXTERNAL_MEMBER[key]
                return self.bind(' '.join([dsl, paren(obj)] + [paren(t) for t, _ in targs])), rty
            raise ExtractError('unsupported callee')
        if k == 'brace':
            raise ExtractError('braced initialiser in an expression')
        if k == 'this':
            raise ExtractError('`this` is only supported as `*this`')
        if k == 'member':
            raise ExtractError('data member access through an object (.%s)' % e[2])
        raise ExtractError('unsupported expression %s' % k)

    def braced(self, args, ty):
        """`{}` / `{a, b}` initialising a value of type ty"""
        if not args:
            return self.zero(ty)
        if ty in ('Nat', 'Bool'):
            if len(args) != 1:
                raise ExtractError('%d initialisers for a scalar' % len(args))
            term, aty = self.expr(args[0])
            if aty != ty:
                raise ExtractError('initialiser of type %s for %s' % (aty, ty))
            return term
        if ty == 'SbcResult':
            if len(args) != len(self.result_fields):
                raise ExtractError('%d initialisers for %s' % (len(args), RESULT_STRUCT))
            parts = []
            for (n, fty), a in zip(self.result_fields, args):
                term, aty = self.expr(a)
                if aty != fty:
                    raise ExtractError('initialiser of type %s for %s::%s' % (aty, RESULT_STRUCT, n))
                parts.append('%s := %s' % (n, term))
            return '{ ' + ', '.join(parts) + ' }'
        raise ExtractError('braced initialisation of %s' % ty)

    # ---- statements
    def assign(self, e):
        op, lhs, rhs = e[1], e[2], e[3]
        if lhs[0] != 'name' or self.lookup(lhs[1]) is not None or not self.in_member or lhs[1] not in self.members:
            raise ExtractError('assignment to something that is not a data member')
        field, ty = self.members[lhs[1]]
        if op == '=':
            term, rty = self.expr(rhs)
        elif op in ('-=', '+=') and ty == 'Nat':
            cur = self.bind('load (·.%s)' % field)
            rt, rty = self.expr(rhs)
            term = '(%s %s %s)' % ('sizeSub' if op == '-=' else 'sizeAdd', cur, rt)
        else:
            raise ExtractError('assignment operator %s on %s' % (op, ty))
        if rty != ty:
            raise ExtractError('assignment of %s to %s %s' % (rty, ty, lhs[1]))
        self.emit('store ({ · with %s := %s })' % (field, term))

    def stmts(self, body):
        """returns True when the sequence always ends in `return`"""
        for i, s in enumerate(body):
            if self.stmt(s):
                if i + 1 != len(body):
                    raise ExtractError('statements after `return` (line %d)' % body[i + 1][-1])
                return True
        return False

    def stmt(self, s):
        k = s[0]
        if k == 'assert':
            raise ExtractError('SBEPP_ASSERT (line %d): the visitor DSL has no assertion outcome' % s[-1])
        if k == 'sizecheck':
            raise ExtractError('SBEPP_SIZE_CHECK (line %d): the visitor DSL has no assertion outcome' % s[-1])
        if k == 'decl':
            _, ty, name, init, line = s
            if init is None:
                raise ExtractError('%s declared without initialiser (line %d)' % (name, line))
            if ty in self.self_type or self.norm_free(ty) in self.self_type:
                if init[0] != 'brace':
                    raise ExtractError('%s: the visitor must be direct-list-initialised' % name)
                action, rty = self.call_own('constructor', init[2])
                self.emit('let %s ← %s' % (self.declare(name, 'Self'), action))
                return False
            if init[0] == 'brace':
                lty = self.lean_type(ty)
                term = self.braced(init[2], lty)
            else:
                term, lty = self.expr(init)
                if ty != 'auto' and self.lean_type(ty) != lty:
                    raise ExtractError('%s: initialiser of type %s for %s' % (name, lty, ty))
            # `auto x = f(…);`: bind the call's value directly to the C++ name
            m = re.match(r'(\s*)let (t\d+) ← (.*)$', self.lines[-1]) if self.lines else None
            if m and m.group(2) == term and init[0] == 'call':
                self.lines[-1] = '%slet %s ← %s' % (m.group(1), self.declare(name, lty), m.group(3))
            else:
                self.emit('let %s := %s' % (self.declare(name, lty), term))
            return False
        if k == 'expr':
            e = s[1]
            if e[0] == 'assign':
                self.assign(e)
                return False
            if e[0] != 'call':
                raise ExtractError('expression statement without effect (line %d)' % s[-1])
            n = len(self.lines)
            term, ty = self.expr(e)
            # the value of the last action is discarded
            last = self.lines[-1]
            m = re.match(r'(\s*)let (t\d+) ← (.*)$', last)
            if len(self.lines) == n or not m or m.group(2) != term:
                raise ExtractError('internal: discarded call (line %d)' % s[-1])
            self.lines[-1] = '%slet _ ← %s' % (m.group(1), m.group(3))
            return False
        if k == 'if':
            _, c, th, el, line = s
            term, ty = self.expr(c)
            self.emit('if %s then' % self.to_bool(term, ty))
            r1 = self.branch(th)
            r2 = False
            if el is not None:
                self.emit('else')
                r2 = self.branch(el)
            return r1 and r2
        if k == 'return':
            e = s[1]
            if e is None:
                if self.ret_type != 'Unit':
                    raise ExtractError('`return;` in a function returning %s' % self.ret_type)
                self.emit('return ()')
                return True
            if e[0] == 'brace' and e[1] is None:
                self.emit('return %s' % self.braced(e[2], self.ret_type))
                return True
            term, ty = self.expr(e)
            if ty != self.ret_type:
                raise ExtractError('`return` of %s in a function returning %s' % (ty, self.ret_type))
            self.emit('return %s' % term)
            return True
        raise ExtractError('unsupported statement %s' % k)

    def branch(self, body):
        self.ind += 1
        self.locals.append({})
        n = len(self.lines)
        r = self.stmts(body)
        if len(self.lines) == n:
            self.emit('pure ()')
        self.locals.pop()
        self.ind -= 1
        return r


def paren(t):
    return t if re.fullmatch(r"[A-Za-z_0-9.']+|\(.*\)|\{.*\}", t) and balanced(t) else '(%s)' % t


def balanced(t):
    if not t or t[0] not in '({':
        return True
    depth = 0
    for i, ch in enumerate(t):
        if ch in '({':
            depth += 1
        elif ch in ')}':
            depth -= 1
            if depth == 0 and i + 1 != len(t):
                return False
    return True


def render_function(f, lean_name, rd, is_ctor=False, data_members=None):
    """-> Lean text of one `def`"""
    rd.lines, rd.ind, rd.locals, rd.ntmp, rd.used = [], 1, [{}], 0, set()
    rd.tparams = set(f.tparams)
    rd.param_of_type = {}
    binders = []
    for i, (ty, ref, name) in enumerate(f.params):
        lty = rd.lean_type(ty, ref=ref, first=(i == 0))
        if name is None:
            binders.append('(_ : %s)' % lty)
            ident = None
        else:
            ident = rd.declare(name, lty)
            binders.append('(%s : %s)' % (ident, lty))
        if ty in rd.tparams:
            rd.param_of_type.setdefault(ty, []).append((ident, lty))
    if is_ctor:
        rd.ret_type = 'Self'
        inits = dict()
        for m, a in f.inits:
            if m in inits:
                raise ExtractError('member %s initialised twice' % m)
            inits[m] = a
        unknown = [m for m in inits if m not in rd.members]
        if unknown:
            raise ExtractError('mem-initialiser for unknown member %s' % unknown[0])
        # members are initialised in declaration order; inside the mem-initialisers a parameter hides the member
        rd.in_member = False
        for dm in data_members:
            field, lty = rd.members[dm.name]
            a = inits.get(dm.name, dm.init)
            if a is None:
                raise ExtractError('data member %s is left uninitialised' % dm.name)
            rd.emit('store ({ · with %s := %s })' % (field, rd.braced(a, lty)))
        rd.in_member = True
        if rd.stmts(f.body):
            raise ExtractError('`return` in the constructor')
        rd.emit('return Self.this')
    else:
        rd.ret_type = rd.lean_type(f.ret)
        done = rd.stmts(f.body)
        if not done:
            if rd.ret_type != 'Unit':
                raise ExtractError('control reaches the end of a function returning %s' % rd.ret_type)
            rd.emit('return ()')
    head = 'def %s %s: VM %s := do' % (lean_name, ''.join(b + ' ' for b in binders), rd.ret_type)
    return head + '\n' + '\n'.join(rd.lines) + '\n'


# ------------------------------------------------------------------ driver

TARGETS = ['constructor', 'on_message', 'on_group', 'on_entry', 'on_data', 'on_field', 'is_valid', 'set_group_block_length',
           'get_size', 'validate_and_subtract']


def lean_name(target):
    return 'ctor' if target == 'constructor' else camel(target)


def find_free_function(src, name):
    """the definition (with body) of the namespace-scope function `name` -> Function"""
    for m in re.finditer(r'(?<![A-Za-z_0-9:.>])' + re.escape(name) + r'\s*\(', src):
        p = m.start()
        start = max(src.rfind(';', 0, p), src.rfind('}', 0, p), src.rfind('{', 0, p)) + 1
        try:
            close = cxx.match_brace(src, m.end() - 1, '(', ')')
            semi = src.find(';', close)
            brace = src.find('{', close)
            if brace < 0 or (0 <= semi < brace):
                continue
            end = cxx.match_brace(src, brace)
            toks = tokenize(src[start:end + 1], src.count('\n', 0, start) + 1)
            f = parse_function_at(Cursor(toks))
        except (ExtractError, ValueError, AssertionError):
            continue
        if f is not None and f.name == name:
            return f
    raise ExtractError('definition of %s not found' % name)


def parse_result_struct(src):
    s, e = cxx.find_class_body(src, RESULT_STRUCT)
    toks = tokenize(src[s:e], src.count('\n', 0, s) + 1)
    members, funcs, failed = parse_class(toks, RESULT_STRUCT)
    if funcs or failed:
        raise ExtractError('%s has member functions' % RESULT_STRUCT)
    out = []
    for m in members:
        if m.ty not in SCALAR_TYPES or m.init is not None:
            raise ExtractError('%s::%s: unsupported member declaration' % (RESULT_STRUCT, m.name))
        out.append((m.name, SCALAR_TYPES[m.ty]))
    return out


def comment_safe(text):
    return text.replace('-/', '- /').replace('/-', '/ -')


def extract(repo, outdir):
    path = os.path.join(repo, HPP)
    raw = open(path, encoding='utf-8').read()
    src = cxx.strip_comments(raw)
    report = {'source': HPP, 'sha256': hashlib.sha256(raw.encode()).hexdigest(), 'methods': {}, 'failed': {}}
    defs = []
    try:
        s, e = cxx.find_class_body(src, CLASS)
        toks = tokenize(src[s:e], src.count('\n', 0, s) + 1)
        data_members, funcs, failed = parse_class(toks, CLASS)
        for name, why in failed.items():
            report['failed']['constructor' if name == CLASS else name] = why
        result_fields = parse_result_struct(src)
        # data members: all known, declared with the expected types
        members = {}
        for dm in data_members:
            if dm.name not in MEMBER_FIELD:
                raise ExtractError('data member %s (line %d) has no counterpart in the model state' % (dm.name, dm.line))
            field, cty = MEMBER_FIELD[dm.name]
            if dm.ty != cty:
                raise ExtractError('data member %s is declared as %s, the model assumes %s' % (dm.name, dm.ty, cty))
            members[dm.name] = (field, SCALAR_TYPES[cty])
        missing = [m for m in MEMBER_FIELD if m not in members]
        if missing:
            raise ExtractError('data member %s not found' % missing[0])
        report['data_members'] = [(dm.ty, dm.name) for dm in data_members]
        if CLASS in funcs:
            funcs['constructor'] = funcs.pop(CLASS)
        extra = [n for n in funcs if n not in TARGETS]
        for n in extra:
            report['failed'][n] = 'member function %s is not part of the model' % n
        rd = Renderer({}, members, result_fields, [], {CLASS, 'detail::' + CLASS})
        # signatures of the own member functions first (calls are typed against them)
        for t in TARGETS:
            fs = funcs.get(t, [])
            if len(fs) != 1:
                if t not in report['failed']:
                    report['failed'][t] = 'not found' if not fs else 'overloaded (%d definitions)' % len(fs)
                continue
            f = fs[0]
            try:
                rd.tparams = set(f.tparams)
                ptys = tuple(rd.lean_type(ty, ref=ref, first=(i == 0)) for i, (ty, ref, _) in enumerate(f.params))
                rd.own[t] = (ptys, 'Self' if t == 'constructor' else rd.lean_type(f.ret))
            except ExtractError as ex:
                report['failed'][t] = str(ex)
        # definitions in dependency order: a function after the own functions it calls
        order = ['validate_and_subtract', 'is_valid', 'get_size', 'set_group_block_length', 'constructor', 'on_field', 'on_data',
                 'on_entry', 'on_group', 'on_message']
        for t in order:
            if t in report['failed'] or t not in rd.own:
                continue
            f = funcs[t][0]
            try:
                rd.in_member = True
                text = render_function(f, lean_name(t), rd, is_ctor=(t == 'constructor'), data_members=data_members)
                defs.append('/-- sbepp.hpp:%d  `%s::%s`\n%s -/\n%s' % (
                    f.line, CLASS, CLASS if t == 'constructor' else t, comment_safe(f.text), text))
                report['methods'][t] = {'line': f.line, 'text': f.text}
            except (ExtractError, IndexError, KeyError, ValueError) as ex:
                report['failed'][t] = str(ex)
        # the free function
        try:
            f = find_free_function(src, FREE)
            rd.in_member = False
            text = render_function(f, lean_name(FREE), rd)
            defs.append('/-- sbepp.hpp:%d  `sbepp::%s`\n%s -/\n%s' % (f.line, FREE, comment_safe(f.text), text))
            report['methods'][FREE] = {'line': f.line, 'text': f.text}
        except (ExtractError, IndexError, KeyError, ValueError) as ex:
            report['failed'][FREE] = str(ex)
    except (ExtractError, ValueError, IndexError, KeyError) as ex:
        report['failed'][CLASS] = str(ex)
    failed_note = ''.join('-- EXTRACTION FAILED: %s: %s\n' % (k, comment_safe(str(v)).replace('\n', ' '))
                          for k, v in sorted(report['failed'].items()))
    text = ('-- GENERATED by /verif/extract/methods_checked.py from %s on every check run. Do not edit.\n'
            '-- `sbepp::detail::%s` member by member and `sbepp::%s`, rendered in the visitor DSL of\n'
            '-- Sbepp/Rt/Checked.lean (`Sbepp.Checked.Visitor`).  C++ typing assumed: `std::size_t` = 64-bit unsigned\n'
            '-- (`sizeSub`/`sizeAdd` wrap), `*header.blockLength()` and `d.size()` convert to `std::size_t` without change of\n'
            '-- value, `sizeof(typename T::size_type)` is a constant of the view whose type is `T`,\n'
            '-- template-typed parameters are view / cursor (lvalue reference) / tag by position, `*this`, `visitor` and\n'
            '-- the result of `visit_children` denote the visitor state, left-to-right evaluation.\n'
            'import Sbepp.Rt.Checked\n\nset_option linter.unusedVariables false\n\nnamespace Sbepp.Extracted.Checked\nopen Sbepp.Checked Sbepp.Checked.Visitor\n\n'
            % (HPP, CLASS, FREE) + failed_note + '\n'.join(defs) + '\nend Sbepp.Extracted.Checked\n')
    write_if_changed(os.path.join(outdir, OUT), text)
    return report


if __name__ == '__main__':
    import json
    import sys
    r = extract(sys.argv[1], sys.argv[2])
    print(json.dumps({'failed': r['failed'], 'methods': sorted(r['methods'])}, indent=1))
