"""Translator for the member functions of `sbepp::detail::dynamic_array_ref`.

Reads the class text from sbepp.hpp, parses every member function in TARGETS
(statement + expression parser -> AST), type-checks the AST with the small C++
typing below and renders it into the monadic DSL of `Sbepp.Rt.DynArray`
(`lean/Sbepp/Rt/DynArray.lean`, `DynArrayDsl.lean`).

Output: lean/Sbepp/Extracted/DynArray.lean + a report (dict).

The generated definitions are tied to the hand model by
`lean/Sbepp/Lemmas/DynArrayTie.lean` (`<method>_tie`).
"""
import hashlib
import os
import re

from . import cxx
from .cxx import ExtractError
from .kernels import write_if_changed

HPP = 'sbepp/src/sbepp/sbepp.hpp'
CLASS = 'dynamic_array_ref'

# ------------------------------------------------------------------ tokens

TOK = re.compile(r'''
    (?P<ws>\s+)
  | (?P<num>0[xX][0-9a-fA-F']+[uUlL]*|\d[\d']*[uUlL]*)
  | (?P<chr>'(?:[^'\\]|\\.)+')
  | (?P<str>"(?:[^"\\]|\\.)*")
  | (?P<id>[A-Za-z_][A-Za-z_0-9]*)
  | (?P<op><<=|>>=|<=>|->|\+\+|--|<<|>>|<=|>=|==|!=|&&|\|\||\+=|-=|\*=|/=|%=|&=|\|=|\^=|::|[-+*/%<>=!~&|^?:;,.(){}\[\]])
''', re.X)


def tokenize(text):
    toks = []
    i = 0
    while i < len(text):
        m = TOK.match(text, i)
        if not m:
            raise ExtractError('cannot tokenize at: %r' % text[i:i + 30])
        i = m.end()
        k = m.lastgroup
        if k != 'ws':
            toks.append((k, m.group(k)))
    return toks


BIN = {
    '||': 1, '&&': 2, '|': 3, '^': 4, '&': 5, '==': 6, '!=': 6,
    '<': 7, '<=': 7, '>': 7, '>=': 7, '<<': 8, '>>': 8, '+': 9, '-': 9, '*': 10, '/': 10, '%': 10,
}

# spellings that name a type inside a body (for declarations and C-style casts)
TYPE_WORDS = {'auto', 'size_type', 'value_type', 'iterator', 'pointer', 'reference', 'difference_type',
              'sbe_size_type', 'bool', 'int', 'char', 'unsigned', 'std::size_t', 'std::ptrdiff_t', 'element_type'}

CHAR_ESC = {'0': 0, 'n': 10, 't': 9, 'r': 13, '\\': 92, "'": 39, '"': 34, 'a': 7, 'b': 8, 'f': 12, 'v': 11}


def char_value(tok):
    s = tok[1:-1]
    if s.startswith('\\'):
        if s[1] in 'xX':
            return int(s[2:], 16)
        if s[1:].isdigit():
            return int(s[1:], 8)
        if s[1] in CHAR_ESC and len(s) == 2:
            return CHAR_ESC[s[1]]
        raise ExtractError('character literal %s' % tok)
    if len(s) != 1:
        raise ExtractError('character literal %s' % tok)
    return ord(s)


def int_value(tok):
    m = re.fullmatch(r"(0[xX][0-9a-fA-F']+|\d[\d']*)([uUlL]*)", tok)
    digits = m.group(1).replace("'", '')
    if len(digits) > 1 and digits[0] == '0' and digits[1] not in 'xX':
        return int(digits, 8)
    return int(digits, 0)


class Parser:
    """tokens -> AST (tuples).  Expressions:
    ('num', n) ('chr', n) ('str', s) ('bool', b) ('nullptr',) ('this',)
    ('name', 'a::b', targs|None) ('call', fn, [args]) ('index', obj, i) ('member', obj, name)
    ('un', op, e) ('post', op, e) ('bin', op, l, r) ('assign', op, l, r) ('cond', c, a, b)
    ('ccast', type, e) ('scast', type, e) ('sizeof', type) ('brace', name|None, targs, [args])
    Statements:
    ('assert', e) ('sizecheck', [e, e, e, e]) ('decl', name, const, tyname, e) ('expr', e)
    ('if', c, [then], [else]|None) ('for', init|None, cond|None, [steps], [body])
    ('return', e|None) ('using', name, type-text)"""

    def __init__(self, toks):
        self.t = toks
        self.i = 0

    def peek(self, k=0):
        return self.t[self.i + k] if self.i + k < len(self.t) else ('eof', '')

    def next(self):
        tok = self.peek()
        self.i += 1
        return tok

    def at(self, val, k=0):
        p = self.peek(k)
        return p[1] == val and p[0] in ('op', 'id')

    def expect(self, val):
        tok = self.next()
        if tok[1] != val or tok[0] not in ('op', 'id'):
            raise ExtractError('expected %r, got %r near: %s' % (
                val, tok[1], ' '.join(x[1] for x in self.t[max(0, self.i - 8):self.i + 4])))

    # ---- names and types
    def qualified(self):
        parts = []
        if self.at('::'):
            self.next()
        while True:
            k, v = self.next()
            if k != 'id':
                raise ExtractError('identifier expected, got %r' % v)
            parts.append(v)
            if self.at('::') and self.peek(1)[0] == 'id':
                self.next()
                continue
            break
        return '::'.join(parts)

    def template_args_follow(self):
        """at '<': is this a template argument list followed by '(' , '{' or '::'?"""
        if not self.at('<'):
            return False
        depth = 0
        par = 0
        j = self.i
        while j < len(self.t):
            k, v = self.t[j]
            if k == 'op':
                if v == '(':
                    par += 1
                elif v == ')':
                    par -= 1
                    if par < 0:
                        return False
                elif par > 0:
                    pass
                elif v == '<':
                    depth += 1
                elif v == '>':
                    depth -= 1
                    if depth == 0:
                        nxt = self.t[j + 1] if j + 1 < len(self.t) else ('eof', '')
                        return nxt[1] in ('(', '{', '::')
                elif v == '>>':
                    depth -= 2
                    if depth <= 0:
                        return False
                elif v in (';', '&&', '||', '{', '}', '=', '==', '!=', '<=', '>='):
                    return False
            j += 1
        return False

    def template_args(self):
        """'<' type-or-constant {',' …} '>' -> list of spellings"""
        self.expect('<')
        args = []
        cur = []
        depth = 1
        while True:
            k, v = self.next()
            if k == 'eof':
                raise ExtractError('unterminated template argument list')
            if k == 'op' and v == '<':
                depth += 1
            elif k == 'op' and v == '>':
                depth -= 1
                if depth == 0:
                    break
            if k == 'op' and v == ',' and depth == 1:
                args.append(spell(cur))
                cur = []
            else:
                cur.append((k, v))
        args.append(spell(cur))
        return args

    # ---- expressions
    def expr(self):
        lhs = self.ternary()
        if self.peek()[0] == 'op' and self.peek()[1] in ('=', '+=', '-=', '*=', '/='):
            op = self.next()[1]
            rhs = self.expr()
            return ('assign', op, lhs, rhs)
        return lhs

    def ternary(self):
        c = self.binary(1)
        if self.at('?'):
            self.next()
            a = self.expr()
            self.expect(':')
            b = self.expr()
            return ('cond', c, a, b)
        return c

    def binary(self, minp):
        lhs = self.unary()
        while True:
            k, v = self.peek()
            if k != 'op' or v not in BIN or BIN[v] < minp:
                return lhs
            self.next()
            rhs = self.binary(BIN[v] + 1)
            lhs = ('bin', v, lhs, rhs)

    def unary(self):
        k, v = self.peek()
        if k == 'op' and v in ('!', '~', '-', '+', '*', '&', '++', '--'):
            self.next()
            return ('un', v, self.unary())
        if k == 'op' and v == '(':
            # C-style cast `(pointer)(e)`
            j = self.i + 1
            parts = []
            while j < len(self.t) and (self.t[j][0] == 'id' or self.t[j][1] == '::'):
                parts.append(self.t[j][1])
                j += 1
            name = ''.join(parts)
            if parts and j < len(self.t) and self.t[j][1] == ')' and name in TYPE_WORDS:
                nxt = self.t[j + 1] if j + 1 < len(self.t) else ('eof', '')
                if nxt[0] in ('id', 'num', 'chr') or nxt[1] == '(':
                    self.i = j + 1
                    return ('ccast', name, self.unary())
        return self.postfix()

    def args(self, close):
        out = []
        if self.at(close):
            self.next()
            return out
        while True:
            out.append(self.expr())
            if self.at(','):
                self.next()
                continue
            self.expect(close)
            return out

    def postfix(self):
        e = self.primary()
        while True:
            if self.at('('):
                self.next()
                e = ('call', e, self.args(')'))
            elif self.at('['):
                self.next()
                i = self.expr()
                self.expect(']')
                e = ('index', e, i)
            elif self.at('.') or self.at('->'):
                self.next()
                k, v = self.next()
                if k != 'id':
                    raise ExtractError('member name expected')
                e = ('member', e, v)
            elif self.at('++') or self.at('--'):
                e = ('post', self.next()[1], e)
            elif self.at('{') and e[0] == 'name':
                self.next()
                e = ('brace', e[1], e[2], self.args('}'))
            else:
                return e

    def primary(self):
        k, v = self.next()
        if k == 'num':
            return ('num', int_value(v))
        if k == 'chr':
            return ('chr', char_value(v))
        if k == 'str':
            return ('str', v)
        if k == 'op' and v == '(':
            e = self.expr()
            self.expect(')')
            return e
        if k == 'op' and v == '{':
            return ('brace', None, None, self.args('}'))
        if k == 'op' and v == '::':
            self.i -= 1
            name = self.qualified()
            return self.named(name)
        if k == 'id':
            if v in ('true', 'false'):
                return ('bool', v == 'true')
            if v == 'nullptr':
                return ('nullptr',)
            if v == 'this':
                return ('this',)
            if v == 'sizeof':
                self.expect('(')
                cur = []
                depth = 0
                while not (self.at(')') and depth == 0):
                    t = self.next()
                    if t[0] == 'eof':
                        raise ExtractError('sizeof: unterminated')
                    depth += t[1] == '('
                    depth -= t[1] == ')'
                    cur.append(t)
                self.expect(')')
                return ('sizeof', spell(cur))
            if v == 'operator':
                # explicit call of an operator member: operator[](i), operator()(x)
                a, b = self.next(), self.next()
                if (a[1], b[1]) not in (('[', ']'), ('(', ')')):
                    raise ExtractError('unsupported operator name')
                return ('name', 'operator' + a[1] + b[1], None)
            if v in ('static_cast', 'reinterpret_cast', 'const_cast'):
                targs = self.template_args()
                self.expect('(')
                e = self.expr()
                self.expect(')')
                if v != 'static_cast':
                    raise ExtractError('%s is not supported' % v)
                return ('scast', targs[0], e)
            if v == 'typename':
                return self.primary()
            self.i -= 1
            name = self.qualified()
            return self.named(name)
        raise ExtractError('unexpected token %r' % v)

    def named(self, name):
        targs = None
        if self.template_args_follow():
            targs = self.template_args()
            if self.at('::'):
                # e.g. std::iterator_traits<It>::iterator_category
                self.next()
                rest = self.qualified()
                return ('name', '%s<%s>::%s' % (name, ','.join(targs), rest), None)
        return ('name', name, targs)

    # ---- statements
    def block(self):
        self.expect('{')
        out = []
        while not self.at('}'):
            if self.peek()[0] == 'eof':
                raise ExtractError('unterminated block')
            s = self.stmt()
            if s is not None:
                out.extend(s if isinstance(s, list) else [s])
        self.expect('}')
        return out

    def stmt_or_block(self):
        if self.at('{'):
            return self.block()
        s = self.stmt()
        return [] if s is None else (s if isinstance(s, list) else [s])

    def is_decl(self):
        j = self.i
        if self.t[j][1] == 'const' and self.t[j][0] == 'id':
            j += 1
        parts = []
        while j < len(self.t) and (self.t[j][0] == 'id' or self.t[j][1] == '::'):
            parts.append(self.t[j])
            j += 1
        if len(parts) < 2 or parts[-1][0] != 'id' or parts[-2][1] == '::':
            return False
        tyname = ''.join(p[1] for p in parts[:-1])
        if tyname not in TYPE_WORDS:
            return False
        return j < len(self.t) and self.t[j][1] in ('=', '{', ';')

    def stmt(self):
        k, v = self.peek()
        if k == 'op' and v == ';':
            self.next()
            return None
        if k == 'op' and v == '{':
            return self.block()
        if k == 'id' and v == 'SBEPP_ASSERT':
            self.next()
            self.expect('(')
            e = self.expr()
            self.expect(')')
            self.expect(';')
            # the `cond && "message"` idiom
            if e[0] == 'bin' and e[1] == '&&' and e[3][0] == 'str':
                e = e[2]
            return ('assert', e)
        if k == 'id' and v == 'SBEPP_SIZE_CHECK':
            self.next()
            self.expect('(')
            a = self.args(')')
            self.expect(';')
            if len(a) != 4:
                raise ExtractError('SBEPP_SIZE_CHECK: %d arguments' % len(a))
            return ('sizecheck', a)
        if k == 'id' and v == 'if':
            self.next()
            self.expect('(')
            c = self.expr()
            self.expect(')')
            th = self.stmt_or_block()
            el = None
            if self.at('else'):
                self.next()
                el = self.stmt_or_block()
            return ('if', c, th, el)
        if k == 'id' and v == 'for':
            self.next()
            self.expect('(')
            init = None
            if not self.at(';'):
                init = self.stmt()          # consumes ';'
            else:
                self.next()
            cond = None
            if not self.at(';'):
                cond = self.expr()
            self.expect(';')
            steps = []
            while not self.at(')'):
                steps.append(self.ternary())
                if self.at(','):
                    self.next()
            self.expect(')')
            body = self.stmt_or_block()
            return ('for', init, cond, steps, body)
        if k == 'id' and v in ('while', 'do', 'switch', 'goto', 'try', 'throw', 'break', 'continue'):
            raise ExtractError('unsupported statement `%s`' % v)
        if k == 'id' and v == 'return':
            self.next()
            e = None
            if not self.at(';'):
                e = self.expr()
            self.expect(';')
            return ('return', e)
        if k == 'id' and v == 'using':
            self.next()
            name = self.next()[1]
            self.expect('=')
            cur = []
            while not self.at(';'):
                t = self.next()
                if t[0] == 'eof':
                    raise ExtractError('using: unterminated')
                cur.append(t)
            self.expect(';')
            return ('using', name, spell(cur))
        if self.is_decl():
            const = False
            if self.at('const'):
                self.next()
                const = True
            parts = []
            while self.peek(1)[1] not in ('=', '{', ';') or self.peek()[1] == '::':
                parts.append(self.next()[1])
            tyname = ''.join(parts)
            name = self.next()[1]
            if self.at('='):
                self.next()
                e = self.expr()
            elif self.at('{'):
                self.next()
                a = self.args('}')
                if len(a) > 1:
                    raise ExtractError('declaration of %s: brace initialiser with %d elements' % (name, len(a)))
                e = a[0] if a else ('brace', None, None, [])
            else:
                e = None
            self.expect(';')
            return ('decl', name, const, tyname, e)
        e = self.expr()
        self.expect(';')
        return ('expr', e)


def spell(toks):
    """canonical spelling of a token sequence (no whitespace except between words)"""
    out = ''
    for k, v in toks:
        if out and (out[-1].isalnum() or out[-1] == '_') and (v[0].isalnum() or v[0] == '_'):
            out += ' '
        out += v
    return out


# ------------------------------------------------------------------ class members

SPECIFIERS = {'constexpr', 'static', 'inline', 'virtual', 'explicit', 'friend', 'SBEPP_CPP14_CONSTEXPR',
              'SBEPP_CPP17_CONSTEXPR', 'SBEPP_CPP20_CONSTEXPR', 'SBEPP_CPP17_NODISCARD', 'SBEPP_CPP17_INLINE_VAR'}


def strip_template_prefix(text):
    """`template<…> rest` -> ([type parameter names], rest); character-level angle matching"""
    tparams = []
    while True:
        m = re.match(r'\s*template\s*<', text)
        if not m:
            return tparams, text
        i = m.end() - 1
        depth = 0
        j = i
        while j < len(text):
            if text[j] == '<':
                depth += 1
            elif text[j] == '>':
                depth -= 1
                if depth == 0:
                    break
            j += 1
        if depth != 0:
            raise ExtractError('unbalanced template header')
        inner = text[i + 1:j]
        for part in cxx.split_args(split_angle_aware(inner)):
            pm = re.match(r'\s*(?:typename|class)\s+([A-Za-z_]\w*)', part)
            if pm:
                tparams.append(pm.group(1))
        text = text[j + 1:]


def split_angle_aware(inner):
    """replace commas nested in <…> by a placeholder so that split_args splits at top level only"""
    out = []
    depth = 0
    for ch in inner:
        if ch == '<':
            depth += 1
        elif ch == '>':
            depth -= 1
        out.append('\x00' if ch == ',' and depth > 0 else ch)
    return ''.join(out)


def class_members(body, base_line):
    """member function definitions at the top level of a class body:
    [(header text, body text, line)]"""
    out = []
    i = 0
    n = len(body)
    start = 0
    par = 0
    while i < n:
        c = body[i]
        if c == '#' and body[:i].rstrip(' \t').endswith('\n'):
            j = body.find('\n', i)
            i = n if j < 0 else j + 1
            start = i
            continue
        if c == '(':
            par += 1
        elif c == ')':
            par -= 1
        elif c == ';' and par == 0:
            start = i + 1
        elif c == '{' and par == 0:
            j = cxx.match_brace(body, i)
            header = body[start:i]
            header = re.sub(r'^\s*(?:(?:public|private|protected)\s*:\s*)+', '', header)
            if '(' in header and not re.match(r'\s*(?:class|struct|enum|union|namespace)\b', header):
                line = base_line + body.count('\n', 0, start + (len(body[start:i]) - len(body[start:i].lstrip())))
                out.append((header, body[i + 1:j], line))
                start = j + 1
            else:
                # brace initialiser of a data member / nested type: skip to its ';'
                start = j + 1
            i = j
        i += 1
    return out


def parse_header(header):
    """-> dict(name, tparams, params=[(type spelling, name)], ret=type spelling, static)"""
    tparams, rest = strip_template_prefix(header)
    toks = tokenize(rest)
    while toks and toks[-1][1] in ('const', 'noexcept', 'override', 'final'):
        toks.pop()
    if not toks or toks[-1][1] != ')':
        raise ExtractError('cannot parse function header: %s' % spell(toks))
    depth = 0
    j = len(toks) - 1
    while j >= 0:
        if toks[j][1] == ')':
            depth += 1
        elif toks[j][1] == '(':
            depth -= 1
            if depth == 0:
                break
        j -= 1
    if j < 0:
        raise ExtractError('cannot parse function header: %s' % spell(toks))
    ptoks = toks[j + 1:-1]
    pre = toks[:j]
    if len(pre) >= 3 and pre[-3][1] == 'operator' and (pre[-2][1], pre[-1][1]) in (('(', ')'), ('[', ']')):
        name = 'operator' + pre[-2][1] + pre[-1][1]
        pre = pre[:-3]
    elif pre and pre[-1][0] == 'id' and not (len(pre) >= 2 and pre[-2][1] == 'operator'):
        name = pre[-1][1]
        pre = pre[:-1]
    else:
        raise ExtractError('unsupported function name in: %s' % spell(toks))
    static = any(t[1] == 'static' for t in pre)
    ret = spell([t for t in pre if t[1] not in SPECIFIERS])
    params = []
    cur = []
    depth = 0
    for t in ptoks + [('op', ',')]:
        if t[1] in ('<', '('):
            depth += 1
        elif t[1] in ('>', ')'):
            depth -= 1
        if t[1] == ',' and depth == 0:
            if cur:
                params.append(split_param(cur))
            cur = []
        else:
            cur.append(t)
    return dict(name=name, tparams=tparams, params=params, ret=ret, static=static)


def split_param(toks):
    toks = [t for t in toks if t[1] != 'const']
    known_type_last = spell(toks) in PARAM_TYPES or spell(toks).lstrip(':') in PARAM_TYPES
    if len(toks) >= 2 and toks[-1][0] == 'id' and toks[-2][1] != '::' and not known_type_last:
        return (spell(toks[:-1]), toks[-1][1])
    return (spell(toks), None)


# parameter type spelling -> translator type (see `Typing` in the generated header)
PARAM_TYPES = {
    'size_type': 'sz', 'value_type': 'val', 'iterator': 'ptr', 'pointer': 'ptr', 'std::size_t': 'size_t',
    'sbepp::default_init_t': ('tag', 'default_init_t'), 'default_init_t': ('tag', 'default_init_t'),
    'detail::size_bytes_tag': ('tag', 'size_bytes_tag'), 'size_bytes_tag': ('tag', 'size_bytes_tag'),
    'std::input_iterator_tag': ('tag', 'input_iterator_tag'),
    'std::forward_iterator_tag': ('tag', 'forward_iterator_tag'),
    'std::bidirectional_iterator_tag': ('tag', 'bidirectional_iterator_tag'),
    'std::random_access_iterator_tag': ('tag', 'random_access_iterator_tag'),
    'std::initializer_list<value_type>': 'ilist', 'char*': 'cstr',
}
RET_TYPES = {
    'iterator': 'ptr', 'pointer': 'ptr', 'reference': 'lval', 'size_type': 'sz', 'sbe_size_type': 'sbe',
    'std::size_t': 'size_t', 'bool': 'bool', 'void': 'void', 'T': 'sbe',
}
TAG_SUFFIX = {'default_init_t': 'di', 'size_bytes_tag': 'size_bytes', 'input_iterator_tag': 'input',
              'forward_iterator_tag': 'forward', 'bidirectional_iterator_tag': 'bidirectional',
              'random_access_iterator_tag': 'random_access'}
LEAN_KEYWORDS = {'end', 'begin', 'at', 'from', 'do', 'then', 'else', 'if', 'fun', 'let', 'have', 'show', 'in',
                 'with', 'match', 'open', 'where', 'by', 'for', 'return', 'instance', 'structure', 'class',
                 'theorem', 'def', 'namespace', 'section', 'variable', 'import', 'local', 'prefix', 'infix',
                 'mut', 'try', 'catch', 'finally', 'unless', 'break', 'continue', 'deriving', 'extends', 'Type',
                 'Prop', 'Sort', 'calc'}


def param_type(spelling, tparams):
    s = spelling
    if s in PARAM_TYPES:
        return PARAM_TYPES[s]
    if s in tparams:
        return ('extit', s)
    if s.endswith('&&') and s[:-2] in tparams:
        return ('range', s[:-2])
    raise ExtractError('unsupported parameter type %r' % spelling)


def suffix_of(ty):
    if ty == 'sz':
        return 'n'
    if ty == 'val':
        return 'v'
    if ty == 'ptr':
        return 'it'
    if ty == 'size_t':
        return 'sz'
    if ty == 'ilist':
        return 'il'
    if ty == 'cstr':
        return 'str'
    if ty[0] == 'tag':
        return TAG_SUFFIX[ty[1]]
    if ty[0] == 'extit':
        return 'in'
    if ty[0] == 'range':
        return 'r'
    raise ExtractError('no suffix for %r' % (ty,))


# ------------------------------------------------------------------ typing + rendering

DSL_NAMES = {'M', 'Params', 'wrapLen', 'sizeT', 'assert', 'sizeCheck', 'readBytes', 'writeBytes', 'stdCopy',
             'stdCopyBackward', 'getPrimitive', 'setPrimitive', 'stdFillN', 'stdCopyIn', 'stringLength',
             'stdCopyN', 'cstrNonNull', 'forNe', 'forExt', 'forExt0', 'ubM'}
NAT_TYPES = ('sz', 'size_t', 'ptr', 'val')
ITER_TAGS = ('input_iterator_tag', 'forward_iterator_tag', 'bidirectional_iterator_tag',
             'random_access_iterator_tag')


class Method:
    def __init__(self, name, tparams, params, ret, body, line, variant='', tbind=None, free=False):
        self.name = name
        self.tparams = tparams
        self.params = params        # [(translator type, C++ name | None)]
        self.ret = ret              # translator type
        self.body = body            # statement ASTs
        self.line = line
        self.variant = variant
        self.tbind = tbind or {}
        self.free = free
        self.lean = None
        self.cat = None             # template parameter whose iterator category the body inspects
        self.header = ''

    def sig(self):
        return tuple(p[0] for p in self.params)


def ival(t):
    return int(t.strip('()'))


def is_ident(s):
    return re.fullmatch(r"[A-Za-z_][A-Za-z_0-9']*", s) is not None


def to_int(text, ty):
    if ty in ('szp', 'diff', 'int'):
        return text
    if ty in ('sz', 'size_t', 'ptr'):
        return '(%s : Int)' % text if is_ident(text) else '((%s : Nat) : Int)' % text
    raise ExtractError('no integer value for type %r' % (ty,))


class Render:
    def __init__(self, meth, table):
        self.m = meth
        self.table = table
        self.defnames = {t.lean for t in table}
        self.n = 0
        self.env = {}
        self.alias = {}
        self.calls = []
        self.lean_params = []

    # ---- names
    def local(self, name):
        if name in LEAN_KEYWORDS or name in self.defnames or name in DSL_NAMES or name in ('P', 'Nat', 'Int', 'List'):
            return name + '_v'
        return name

    def fresh(self, base):
        self.n += 1
        base = re.sub(r'\W', '_', base)
        return '%s_%d' % (base, self.n)

    # ---- parameters
    def bind_params(self):
        m = self.m
        if m.cat:
            self.lean_params.append('(%s_is_input : Bool)' % m.cat)
        i = 0
        ps = m.params
        while i < len(ps):
            ty, nm = ps[i]
            if isinstance(ty, tuple) and ty[0] == 'extit':
                if i + 1 >= len(ps) or ps[i + 1][0] != ty or nm is None or ps[i + 1][1] is None:
                    raise ExtractError('iterator parameter %s is not part of a (first, last) pair' % nm)
                rng = self.local('%s_%s' % (nm, ps[i + 1][1]))
                cat = ('var', '%s_is_input' % ty[1]) if m.cat == ty[1] else ('unknown',)
                self.env[nm] = (rng, ('extit', rng, 'begin', cat))
                self.env[ps[i + 1][1]] = (rng, ('extit', rng, 'end', cat))
                self.lean_params.append('(%s : List Nat)' % rng)
                i += 2
                continue
            if ty in NAT_TYPES:
                if nm is None:
                    raise ExtractError('unnamed value parameter')
                ln = self.local(nm)
                self.env[nm] = (ln, ty)
                self.lean_params.append('(%s : Nat)' % ln)
            elif ty in ('ilist', 'cstr') or (isinstance(ty, tuple) and ty[0] == 'range'):
                ln = self.local(nm)
                t = ty if isinstance(ty, str) else 'range'
                self.env[nm] = (ln, (t, ln))
                self.lean_params.append('(%s : List Nat)' % ln)
            elif ty == 'view':
                self.env[nm] = ('', 'view')
            elif isinstance(ty, tuple) and ty[0] == 'tag':
                if nm is not None:
                    self.env[nm] = ('', ty)
            else:
                raise ExtractError('parameter type %r' % (ty,))
            i += 1

    # ---- conversions
    def conv(self, text, ty, to):
        if to == 'sz':
            if ty == 'sz':
                return text
            if ty == 'int':
                n = ival(text)
                return text if 0 <= n < 256 else '(wrapLen P (%s))' % text
            if ty in ('szp', 'diff', 'size_t'):
                return '(wrapLen P %s)' % paren(to_int(text, ty))
            raise ExtractError('cannot convert %r to size_type' % (ty,))
        if to == 'val':
            if ty == 'val':
                return text
            if ty in ('int', 'chr'):
                if not 0 <= ival(text) < 256:
                    raise ExtractError('element literal %s out of the byte range' % text)
                return text
            if ty == 'emptyinit':
                return '0'
            raise ExtractError('cannot convert %r to value_type' % (ty,))
        if to == 'ptr':
            if ty == 'ptr':
                return text
            raise ExtractError('cannot convert %r to a pointer' % (ty,))
        if to == 'size_t':
            if ty in ('size_t', 'sz'):
                return text
            if ty == 'int' and ival(text) >= 0:
                return text
            raise ExtractError('cannot convert %r to std::size_t' % (ty,))
        if to == 'bool':
            return self.to_bool(text, ty)
        if to == ty:
            return text
        raise ExtractError('cannot convert %r to %r' % (ty, to))

    def to_bool(self, text, ty):
        if ty == 'bool':
            return text
        if ty in ('sz', 'size_t'):
            return '(%s != 0)' % text
        if ty == 'str':
            return 'true'
        raise ExtractError('no boolean value for type %r' % (ty,))

    # ---- expressions: returns (Lean text, type); effectful calls are bound in `blk`
    def ex(self, e, blk):
        k = e[0]
        if k == 'num':
            return str(e[1]), 'int'
        if k == 'chr':
            return str(e[1]), 'chr'
        if k == 'str':
            return 'true', 'str'
        if k == 'bool':
            return ('true' if e[1] else 'false'), 'bool'
        if k == 'nullptr':
            return '', 'nullptr'
        if k == 'this':
            return '', 'thisptr'
        if k == 'name':
            return self.name(e)
        if k == 'sizeof':
            t = self.m.tbind.get(e[1], e[1])
            if t in ('size_type', 'sz'):
                return 'P.w', 'size_t'
            raise ExtractError('sizeof(%s)' % e[1])
        if k == 'brace':
            return self.brace(e, blk)
        if k == 'scast':
            t, ty = self.ex(e[2], blk)
            tgt = {'size_type': 'sz', 'std::size_t': 'size_t', '::std::size_t': 'size_t', 'bool': 'bool'}.get(e[1])
            if tgt is None:
                raise ExtractError('static_cast<%s>' % e[1])
            return self.conv(t, ty, tgt), tgt
        if k == 'ccast':
            t, ty = self.ex(e[2], blk)
            tgt = {'pointer': 'ptr', 'iterator': 'ptr', 'size_type': 'sz'}.get(e[1])
            if tgt is None:
                raise ExtractError('cast to (%s)' % e[1])
            return self.conv(t, ty, tgt), tgt
        if k == 'un':
            return self.unary(e, blk)
        if k == 'bin':
            if e[1] in ('&&', '||'):
                return self.logic(e, blk)
            return self.binary(e, blk)
        if k in ('call', 'index', 'member'):
            kind, text, ty = self.call(e, blk)
            if kind == 'pure':
                return text, ty
            if ty in ('void', 'discard'):
                raise ExtractError('the result of this call is not modelled as a value')
            t = self.fresh(self.call_base(e))
            blk.append('let %s ← %s' % (t, text))
            return t, ty
        raise ExtractError('unsupported expression %r' % (k,))

    def call_base(self, e):
        if e[0] == 'index':
            return 'at'
        f = e[1] if e[0] == 'call' else e
        while f[0] in ('call', 'member', 'index'):
            if f[0] == 'member':
                return f[2]
            f = f[1]
        if f[0] == 'name':
            return f[1].split('::')[-1].replace('operator[]', 'at').replace('operator()', 'call')
        return 't'

    def name(self, e):
        n = e[1]
        if n in self.env:
            t, ty = self.env[n]
            if ty == 'consumed':
                raise ExtractError('%s is used after the loop that advanced it to the end' % n)
            return t, ty
        if n in ('default_init', 'sbepp::default_init'):
            return '', ('tag', 'default_init_t')
        raise ExtractError('unknown identifier %r' % n)

    def brace(self, e, blk):
        nm, args = e[1], e[3]
        if nm is None:
            if args:
                raise ExtractError('initialiser list with elements')
            return '0', 'emptyinit'
        short = nm.split('::')[-1]
        if nm in self.alias:
            if args:
                raise ExtractError('%s{…} with arguments' % nm)
            return '', self.alias[nm]
        if short in ('addressof_tag', 'end_ptr_tag', 'size_bytes_tag') + ITER_TAGS and not args:
            return '', ('tag', short)
        if self.m.tbind.get(nm) == 'sbe' and len(args) == 1:
            t, ty = self.ex(args[0], blk)
            if ty != 'sz':
                raise ExtractError('%s{…} from %r' % (nm, ty))
            return t, 'sbe'
        raise ExtractError('unsupported construction %s{…}' % nm)

    def unary(self, e, blk):
        op = e[1]
        if op == '*' and e[2][0] == 'this':
            return '', 'view'
        t, ty = self.ex(e[2], blk)
        if op == '!':
            if ty == 'bool':
                return '(!%s)' % t, 'bool'
            if ty in ('sz', 'size_t'):
                return '(%s == 0)' % t, 'bool'
            raise ExtractError('`!` on %r' % (ty,))
        if op == '*':
            if ty == 'ptr':
                return t, 'lval'
            if isinstance(ty, tuple) and ty[0] == 'extit' and len(ty) == 5:
                return ty[4], 'val'            # inside the loop over the range: the current element
            raise ExtractError('`*` on %r' % (ty,))
        if op == '+' and ty == 'int':
            return t, ty
        if op == '-' and ty == 'int':
            return '(-%s)' % t, 'int'
        raise ExtractError('unary `%s` on %r' % (op, ty))

    def logic(self, e, blk):
        op = e[1]
        lt, lty = self.ex(e[2], blk)
        lb = self.to_bool(lt, lty)
        sub = []
        rt, rty = self.ex(e[3], sub)
        rb = self.to_bool(rt, rty)
        if not sub:
            return '(%s %s %s)' % (lb, op, rb), 'bool'
        t = self.fresh('and' if op == '&&' else 'or')
        blk.append('let %s ←' % t)
        if op == '&&':
            blk.append('  if %s then do' % lb)
            blk.extend('    ' + s for s in sub)
            blk.append('    pure %s' % rb)
            blk.append('  else pure false')
        else:
            blk.append('  if %s then pure true' % lb)
            blk.append('  else do')
            blk.extend('    ' + s for s in sub)
            blk.append('    pure %s' % rb)
        return t, 'bool'

    def binary(self, e, blk):
        op = e[1]
        a, ta = self.ex(e[2], blk)
        b, tb = self.ex(e[3], blk)
        nat = ('sz', 'size_t', 'ptr')
        if op in ('<', '<=', '>', '>=', '==', '!='):
            lean = {'<': '<', '<=': '≤', '>': '>', '>=': '≥', '==': '==', '!=': '!='}[op]
            ok = ((ta == 'ptr' and tb == 'ptr') or (ta in ('sz', 'size_t') and tb in ('sz', 'size_t'))
                  or (ta in ('sz', 'size_t') and tb == 'int' and ival(b) >= 0)
                  or (tb in ('sz', 'size_t') and ta == 'int' and ival(a) >= 0))
            if ok:
                if op in ('==', '!='):
                    return '(%s %s %s)' % (a, lean, b), 'bool'
                return '(decide (%s %s %s))' % (a, lean, b), 'bool'
            if op in ('==', '!=') and ta == 'bool' and tb == 'bool':
                return '(%s %s %s)' % (a, lean, b), 'bool'
            if op in ('==', '!='):
                for x, y in ((ta, tb), (tb, ta)):
                    if isinstance(x, tuple) and x[0] == 'cstr' and y == 'nullptr':
                        r = '(cstrNonNull %s)' % x[1]
                        return (r if op == '!=' else '(!%s)' % r), 'bool'
            raise ExtractError('comparison `%s` of %r and %r' % (op, ta, tb))
        if op == '+':
            for (x, tx, y, ty) in ((a, ta, b, tb), (b, tb, a, ta)):
                if tx == 'ptr' and (ty in ('sz', 'size_t') or (ty == 'int' and ival(y) >= 0)):
                    return '(%s + %s)' % (a, b), 'ptr'
            if 'size_t' in (ta, tb) and all(t in ('sz', 'size_t') or (t == 'int' and ival(v) >= 0)
                                            for v, t in ((a, ta), (b, tb))):
                return '(sizeT (%s + %s))' % (a, b), 'size_t'
            if all(t in ('sz', 'szp', 'int', 'diff') for t in (ta, tb)):
                if ta == 'int' and tb == 'int':
                    raise ExtractError('constant arithmetic is not supported')
                res = 'diff' if all(t in ('diff', 'int') for t in (ta, tb)) else 'szp'
                return '(%s + %s)' % (to_int(a, ta), to_int(b, tb)), res
            raise ExtractError('`+` of %r and %r' % (ta, tb))
        if op == '-':
            if ta == 'ptr' and tb == 'ptr':
                return '(%s - %s)' % (to_int(a, ta), to_int(b, tb)), 'diff'
            if all(t in ('sz', 'szp', 'int', 'diff') for t in (ta, tb)):
                if ta == 'int' and tb == 'int':
                    raise ExtractError('constant arithmetic is not supported')
                res = 'diff' if all(t in ('diff', 'int') for t in (ta, tb)) else 'szp'
                return '(%s - %s)' % (to_int(a, ta), to_int(b, tb)), res
            raise ExtractError('`-` of %r and %r' % (ta, tb))
        raise ExtractError('operator `%s` is not supported' % op)

    # ---- calls: returns ('pure' | 'act', Lean text, type)
    def call(self, e, blk):
        if e[0] == 'index':
            ot, oty = self.ex(e[1], blk)
            if oty != 'view':
                raise ExtractError('subscript on %r' % (oty,))
            return self.method_call('operator[]', [e[2]], blk)
        if e[0] == 'member':
            ot, oty = self.ex(e[1], blk)
            if oty == 'copyres' and e[2] == 'out':
                return 'pure', ot, 'ptr'
            raise ExtractError('member access .%s on %r' % (e[2], oty))
        fn, args = e[1], e[2]
        if fn[0] == 'member':
            ot, oty = self.ex(fn[1], blk)
            if oty == 'sbe' and fn[2] == 'value' and not args:
                return 'pure', ot, 'sz'
            if isinstance(oty, tuple) and oty[0] == 'ilist' and fn[2] == 'size' and not args:
                return 'pure', '%s.length' % oty[1], 'size_t'
            if oty == 'view':
                return self.method_call(fn[2], args, blk)
            raise ExtractError('member call .%s() on %r' % (fn[2], oty))
        if fn[0] == 'name':
            n, targs = fn[1], fn[2]
            if n in self.env:
                if self.env[n][1] == 'view':
                    return self.view_call(args, blk)
                raise ExtractError('call of the local %r' % n)
            if any(t.name == n and not t.free for t in self.table):
                return self.method_call(n, args, blk)
            short = re.sub(r'^(::)?(sbepp::)?(detail::)?', '', n)
            if any(t.free and t.name == short for t in self.table):
                return self.free_call(short, targs, args, blk)
            return self.builtin(n, short, targs, args, blk)
        ft, fty = self.ex(fn, blk)
        if fty == 'view':
            return self.view_call(args, blk)
        raise ExtractError('call of an expression of type %r' % (fty,))

    def view_call(self, args, blk):
        if len(args) != 1:
            raise ExtractError('view(…) with %d arguments' % len(args))
        t, ty = self.ex(args[0], blk)
        if ty == ('tag', 'addressof_tag'):
            return 'pure', '0', 'ptr'
        if ty == ('tag', 'end_ptr_tag'):
            return 'pure', 'P.avail', 'ptr'
        if isinstance(ty, tuple) and ty[0] == 'tag':
            return self.method_call('operator()', args, blk)
        raise ExtractError('view(…) with an argument of type %r' % (ty,))

    def render_args(self, args, blk):
        return [self.ex(a, blk) for a in args]

    def compatible(self, pty, aty):
        if pty == 'sz':
            return aty in ('sz', 'szp', 'int', 'size_t', 'diff')
        if pty == 'size_t':
            return aty in ('sz', 'int', 'size_t')
        if pty == 'val':
            return aty in ('val', 'int', 'chr', 'emptyinit')
        if pty == 'ptr':
            return aty == 'ptr'
        if pty == 'view':
            return aty == 'view'
        if pty == 'ilist':
            return isinstance(aty, tuple) and aty[0] == 'ilist'
        if pty == 'cstr':
            return isinstance(aty, tuple) and aty[0] == 'cstr'
        if isinstance(pty, tuple) and pty[0] == 'extit':
            return isinstance(aty, tuple) and aty[0] == 'extit'
        if isinstance(pty, tuple) and pty[0] == 'range':
            return isinstance(aty, tuple) and aty[0] in ('range', 'ilist')
        if isinstance(pty, tuple) and pty[0] == 'tag':
            if isinstance(aty, tuple) and aty[0] == 'itercat':
                return pty[1] in ITER_TAGS
            return aty == pty
        return False

    def method_call(self, name, args, blk, free=False):
        vals = self.render_args(args, blk)
        cands = [t for t in self.table if t.name == name and t.free == free and len(t.params) == len(vals)
                 and all(self.compatible(p[0], v[1]) for p, v in zip(t.params, vals))]
        if not cands:
            raise ExtractError('no overload of %s accepts (%s)' % (name, ', '.join(str(v[1]) for v in vals)))
        cats = [v[1] for v in vals if isinstance(v[1], tuple) and v[1][0] == 'itercat']
        if cats:
            return self.dispatch(name, cands, vals, cats[0])
        if len(cands) > 1:
            raise ExtractError('call of %s is ambiguous (%s)' % (name, ', '.join(t.lean for t in cands)))
        return ('act',) + self.apply(cands[0], vals)

    def apply(self, t, vals):
        """Lean application of the definition of `t` to rendered arguments"""
        out = [t.lean, 'P']
        if t.cat:
            cat = None
            for p, v in zip(t.params, vals):
                if p[0] == ('extit', t.cat):
                    cat = v[1][3]
            if cat is None or cat[0] == 'unknown':
                raise ExtractError('%s needs the iterator category of its range argument' % t.lean)
            out.append('false' if cat[0] == 'random' else cat[1])
        i = 0
        while i < len(vals):
            pty = t.params[i][0]
            text, aty = vals[i]
            if isinstance(pty, tuple) and pty[0] == 'extit':
                if i + 1 >= len(vals) or t.params[i + 1][0] != pty:
                    raise ExtractError('%s: unpaired iterator parameter' % t.lean)
                b = vals[i + 1][1]
                if not (aty[2] == 'begin' and b[0] == 'extit' and b[2] == 'end' and b[1] == aty[1]):
                    raise ExtractError('%s: the iterator arguments are not (begin, end) of one range' % t.lean)
                out.append(aty[1])
                i += 2
                continue
            if pty in ('sz', 'val', 'ptr', 'size_t'):
                out.append(paren(self.conv(text, aty, pty)))
            elif pty in ('ilist', 'cstr') or (isinstance(pty, tuple) and pty[0] == 'range'):
                out.append(aty[1])
            i += 1
        if t.lean not in self.calls:
            self.calls.append(t.lean)
        return ' '.join(out), t.ret

    def dispatch(self, name, cands, vals, cat):
        """tag dispatch on `iterator_traits<It>::iterator_category{}`: the category is either exactly
        input_iterator_tag or forward_iterator_tag-or-derived"""
        def tag_of(t):
            for p, v in zip(t.params, vals):
                if isinstance(v[1], tuple) and v[1][0] == 'itercat':
                    return p[0][1]
        by = {}
        for t in cands:
            if tag_of(t) in by:
                raise ExtractError('call of %s is ambiguous' % name)
            by[tag_of(t)] = t
        if set(by) - {'input_iterator_tag', 'forward_iterator_tag'} or 'input_iterator_tag' not in by:
            raise ExtractError('tag dispatch of %s over %s is not supported' % (name, sorted(by)))
        inp = self.apply(by['input_iterator_tag'], vals)
        fwd = self.apply(by.get('forward_iterator_tag', by['input_iterator_tag']), vals)
        if inp[1] != fwd[1]:
            raise ExtractError('tag-dispatched overloads of %s return different types' % name)
        if cat[1][0] == 'random':
            return ('act',) + fwd
        if cat[1][0] != 'var':
            raise ExtractError('iterator category of the argument is unknown')
        if 'forward_iterator_tag' not in by:
            return ('act',) + inp
        return 'act', '(if %s then %s else %s)' % (cat[1][1], inp[0], fwd[0]), inp[1]

    def free_call(self, short, targs, args, blk):
        t = [x for x in self.table if x.free and x.name == short][0]
        want = t.tbind.get('__targs__')
        if want is not None and targs != want:
            raise ExtractError('%s<%s>: only the instantiation <%s> is translated' % (
                short, ','.join(targs or []), ','.join(want)))
        return self.method_call(short, args, blk, free=True)

    def ext_pair(self, a, b, what):
        if not (isinstance(a, tuple) and a[0] == 'extit' and isinstance(b, tuple) and b[0] == 'extit'
                and a[2] == 'begin' and b[2] == 'end' and a[1] == b[1]):
            raise ExtractError('%s: the source is not (begin, end) of one range' % what)
        return a[1]

    def builtin(self, n, short, targs, args, blk):
        vals = self.render_args(args, blk)
        tys = [v[1] for v in vals]

        def need(k):
            if len(vals) != k:
                raise ExtractError('%s with %d arguments' % (n, len(vals)))
        if n in ('std::begin', 'std::end'):
            need(1)
            ty = tys[0]
            if isinstance(ty, tuple) and ty[0] in ('ilist', 'range'):
                cat = ('random',) if ty[0] == 'ilist' else ('unknown',)
                return 'pure', ty[1], ('extit', ty[1], n[5:], cat)
            raise ExtractError('%s of %r' % (n, ty))
        if n == 'std::forward':
            need(1)
            return 'pure', vals[0][0], tys[0]
        if n == 'std::distance':
            need(2)
            rng = self.ext_pair(tys[0], tys[1], n)
            return 'pure', '(%s.length : Int)' % rng, 'diff'
        if n == 'std::copy':
            need(3)
            if tys[0] == 'ptr' and tys[1] == 'ptr' and tys[2] == 'ptr':
                return 'act', 'stdCopy %s %s %s' % tuple(paren(v[0]) for v in vals), 'discard'
            rng = self.ext_pair(tys[0], tys[1], n)
            if tys[2] != 'ptr':
                raise ExtractError('std::copy into %r' % (tys[2],))
            return 'act', 'stdCopyIn %s %s' % (rng, paren(vals[2][0])), 'ptr'
        if n == 'std::ranges::copy':
            need(2)
            if not (isinstance(tys[0], tuple) and tys[0][0] in ('range', 'ilist')) or tys[1] != 'ptr':
                raise ExtractError('std::ranges::copy of %r into %r' % (tys[0], tys[1]))
            return 'act', 'stdCopyIn %s %s' % (tys[0][1], paren(vals[1][0])), 'copyres'
        if n == 'std::copy_backward':
            need(3)
            if tys != ['ptr', 'ptr', 'ptr']:
                raise ExtractError('std::copy_backward of %r' % (tys,))
            return 'act', 'stdCopyBackward %s %s %s' % tuple(paren(v[0]) for v in vals), 'discard'
        if n == 'std::fill_n':
            need(3)
            if tys[0] != 'ptr':
                raise ExtractError('std::fill_n into %r' % (tys[0],))
            cnt = self.conv(vals[1][0], tys[1], 'sz') if tys[1] != 'size_t' else vals[1][0]
            return 'act', 'stdFillN %s %s %s' % (paren(vals[0][0]), paren(cnt),
                                                 paren(self.conv(vals[2][0], tys[2], 'val'))), 'discard'
        if n == 'std::copy_n':
            need(3)
            if not (isinstance(tys[0], tuple) and tys[0][0] == 'cstr') or tys[2] != 'ptr' \
                    or tys[1] not in ('sz', 'size_t'):
                raise ExtractError('std::copy_n of %r' % (tys,))
            return 'act', 'stdCopyN %s %s %s' % (tys[0][1], paren(vals[1][0]), paren(vals[2][0])), 'discard'
        if short == 'string_length':
            need(1)
            if not (isinstance(tys[0], tuple) and tys[0][0] == 'cstr'):
                raise ExtractError('string_length of %r' % (tys[0],))
            return 'pure', '(stringLength %s)' % tys[0][1], 'size_t'
        if short == 'set_primitive':
            need(2)
            if targs != ['E'] or tys[0] != 'ptr' or tys[1] != 'sz':
                raise ExtractError('set_primitive<%s>(%r, %r)' % (targs, tys[0], tys[1]))
            return 'act', 'setPrimitive P %s %s' % (paren(vals[0][0]), paren(vals[1][0])), 'void'
        if short == 'get_primitive':
            need(1)
            u = [self.m.tbind.get(x, x) for x in (targs or [])]
            if u != ['sz', 'E'] and u != ['size_type', 'E'] or tys[0] != 'ptr':
                raise ExtractError('get_primitive<%s>(%r)' % (targs, tys[0]))
            return 'act', 'getPrimitive P %s' % paren(vals[0][0]), 'sz'
        raise ExtractError('call of %s is not supported' % n)

    # ---- statements; returns True when the last emitted line is an `M Unit` action
    def stmts(self, ss, blk, tail):
        unit = False
        for i, s in enumerate(ss):
            unit = self.stmt(s, blk, tail and i == len(ss) - 1)
        return unit

    def unit_block(self, ss):
        sub = []
        if not self.stmts(ss, sub, False):
            sub.append('pure ()')
        return sub

    def stmt(self, s, blk, tail):
        k = s[0]
        if k == 'assert':
            t, ty = self.ex(s[1], blk)
            blk.append('assert %s' % self.to_bool(t, ty))
            return True
        if k == 'sizecheck':
            b, tb = self.ex(s[1][0], blk)
            e, te = self.ex(s[1][1], blk)
            if (b, tb, e, te) != ('0', 'ptr', 'P.avail', 'ptr'):
                raise ExtractError('SBEPP_SIZE_CHECK over something else than the whole view')
            o, to = self.ex(s[1][2], blk)
            z, tz = self.ex(s[1][3], blk)
            blk.append('sizeCheck P %s %s' % (paren(self.conv(o, to, 'size_t')), paren(self.conv(z, tz, 'size_t'))))
            return True
        if k == 'using':
            m = re.fullmatch(r'(?:typename )?std::iterator_traits<(\w+)>::iterator_category', s[2])
            if not m:
                raise ExtractError('unsupported alias `using %s = %s`' % (s[1], s[2]))
            if m.group(1) != self.m.cat:
                raise ExtractError('iterator category of %s is not available' % m.group(1))
            self.alias[s[1]] = ('itercat', ('var', '%s_is_input' % m.group(1)))
            return False
        if k == 'decl':
            name, const, tyname, init = s[1], s[2], s[3], s[4]
            if init is None:
                raise ExtractError('declaration of %s without initialiser' % name)
            n0 = len(blk)
            t, ty = self.ex(init, blk)
            if tyname != 'auto':
                tgt = {'size_type': 'sz', 'iterator': 'ptr', 'pointer': 'ptr', 'std::size_t': 'size_t',
                       'value_type': 'val', 'bool': 'bool'}.get(tyname)
                if tgt is None:
                    raise ExtractError('declaration of type %s' % tyname)
                t, ty = self.conv(t, ty, tgt), tgt
            if ty in ('void', 'discard', 'view', 'nullptr', 'emptyinit') or ty == 'szp':
                raise ExtractError('declaration of %s from a value of type %r' % (name, ty))
            ln = self.local(name)
            if len(blk) > n0 and blk[-1].startswith('let %s ← ' % t):
                blk[-1] = 'let %s ← ' % ln + blk[-1][len('let %s ← ' % t):]
            else:
                blk.append('let %s := %s' % (ln, t))
            if isinstance(ty, tuple) and ty[0] in ('ilist', 'range', 'cstr', 'extit'):
                raise ExtractError('local copy of %r' % (ty,))
            self.env[name] = (ln, ty)
            return False
        if k == 'expr':
            e = s[1]
            if e[0] == 'assign':
                if e[1] != '=':
                    raise ExtractError('compound assignment')
                sub = []
                r, tr = self.ex(e[3], sub)
                if sub:
                    raise ExtractError('assignment whose right-hand side has calls')
                l, tl = self.ex(e[2], blk)
                if tl != 'lval':
                    raise ExtractError('assignment to %r' % (tl,))
                blk.append('writeBytes %s [%s]' % (paren(l), self.conv(r, tr, 'val')))
                return True
            if e[0] in ('call', 'index', 'member'):
                kind, text, ty = self.call(e, blk)
                if kind == 'pure':
                    return False
                if ty in ('void', 'discard'):
                    blk.append(text)
                    return True
                blk.append('let _ ← %s' % text)
                return False
            raise ExtractError('unsupported expression statement')
        if k == 'if':
            c, tc = self.ex(s[1], blk)
            th = self.unit_block(s[2])
            el = self.unit_block(s[3]) if s[3] is not None else ['pure ()']
            blk.append('if %s then do' % self.to_bool(c, tc))
            blk.extend('  ' + x for x in th)
            blk.append('else do')
            blk.extend('  ' + x for x in el)
            return True
        if k == 'for':
            return self.loop(s, blk)
        if k == 'return':
            if not tail:
                raise ExtractError('return that is not the last statement')
            if s[1] is None:
                if self.m.ret != 'void':
                    raise ExtractError('return without a value')
                return False
            t, ty = self.ex(s[1], blk)
            if self.m.ret == 'void':
                raise ExtractError('return of a value from a void function')
            blk.append('pure %s' % paren(self.conv(t, ty, self.m.ret)))
            return False
        raise ExtractError('unsupported statement %r' % (k,))

    def step_var(self, e):
        if e[0] in ('un', 'post') and e[1] == '++' and e[2][0] == 'name':
            return e[2][1]
        raise ExtractError('unsupported loop step')

    def loop(self, s, blk):
        init, cond, steps, body = s[1], s[2], s[3], s[4]
        if cond is None or cond[0] != 'bin' or cond[1] != '!=':
            raise ExtractError('unsupported loop condition')
        svars = [self.step_var(x) for x in steps]
        if init is not None:
            # for(auto i = a; i != b; i++)
            if init[0] != 'decl' or init[3] != 'auto' or init[4] is None:
                raise ExtractError('unsupported loop initialisation')
            i = init[1]
            if svars != [i] or cond[2] != ('name', i, None):
                raise ExtractError('unsupported counting loop')
            a, ta = self.ex(init[4], blk)
            b, tb = self.ex(cond[3], blk)
            if ta != 'sz' or tb != 'sz':
                raise ExtractError('counting loop over %r … %r' % (ta, tb))
            li = self.local(i)
            saved = dict(self.env)
            self.env[i] = (li, 'sz')
            sub = self.unit_block(body)
            self.env = saved
            blk.append('forNe P %s %s (fun %s => do' % (paren(a), paren(b), li))
            blk.extend('  ' + x for x in sub)
            blk[-1] += ')'
            return True
        # for(; first != last; ++first [, ++out])
        if cond[2][0] != 'name' or cond[3][0] != 'name':
            raise ExtractError('unsupported loop condition')
        f, l = cond[2][1], cond[3][1]
        tf = self.env.get(f, (None, None))[1]
        tl = self.env.get(l, (None, None))[1]
        rng = self.ext_pair(tf, tl, 'loop')
        if f not in svars or len(set(svars)) != len(svars):
            raise ExtractError('the loop does not advance %s' % f)
        others = [v for v in svars if v != f]
        for v in others:
            if self.env.get(v, (None, None))[1] != 'ptr':
                raise ExtractError('loop step on %s' % v)
        if len(others) > 1:
            raise ExtractError('loop with %d additional counters' % len(others))
        cur = self.local(f + '_deref')
        saved = dict(self.env)
        self.env[f] = (rng, tf + (cur,))
        sub = self.unit_block(body)
        self.env = saved
        self.env[f] = ('', 'consumed')
        if others:
            o = self.env[others[0]][0]
            blk.append('let %s ← forExt %s %s (fun %s %s => do' % (o, rng, o, o, cur))
            blk.extend('  ' + x for x in sub)
            blk[-1] += ')'
            return False
        blk.append('forExt0 %s (fun %s => do' % (rng, cur))
        blk.extend('  ' + x for x in sub)
        blk[-1] += ')'
        return True

    def render(self):
        self.bind_params()
        blk = []
        unit = self.stmts(self.m.body, blk, True)
        if self.m.ret == 'void':
            if not unit:
                blk.append('pure ()')
        elif not blk or not blk[-1].startswith('pure '):
            raise ExtractError('no return value at the end of the body')
        rt = {'bool': 'Bool', 'void': 'Unit'}.get(self.m.ret, 'Nat')
        head = 'def %s (P : Params)%s : M %s := do' % (
            self.m.lean, ''.join(' ' + p for p in self.lean_params), rt)
        return head + '\n' + '\n'.join('  ' + x for x in blk) + '\n'


def paren(t):
    if is_ident(t) or re.fullmatch(r'\d+', t) or re.fullmatch(r'[A-Za-z_]\w*(\.\w+)+', t):
        return t
    if t.startswith('(') and cxx.match_brace(t, 0, '(', ')') == len(t) - 1:
        return t
    return '(%s)' % t


# ------------------------------------------------------------------ driver

# member functions that are translated (by C++ name); everything else in the class is listed as skipped
TARGETS = {'begin', 'end', 'front', 'data', 'operator[]', 'sbe_size', 'size', 'empty', 'clear', 'resize',
           'push_back', 'pop_back', 'erase', 'insert', 'assign', 'operator()', 'assign_string', 'assign_range',
           'data_checked', 'data_unchecked', 'insert_impl'}

# definitions the tie lemmas (lean/Sbepp/Lemmas/DynArrayTie.lean) expect; a missing one is an extraction failure
EXPECTED = ['get_value', 'sbe_size', 'size', 'empty', 'data_unchecked', 'data_checked', 'data', 'begin_', 'end_',
            'front', 'operator_index', 'resize_n_di', 'resize_n', 'resize_n_v', 'clear', 'push_back', 'pop_back',
            'erase_it', 'erase_it_it', 'insert_it_v', 'insert_it_n_v', 'insert_impl_input', 'insert_impl_forward',
            'insert_it_in_in', 'insert_it_il', 'assign_n_v', 'assign_in_in', 'assign_il', 'assign_string',
            'assign_range', 'assign_range_SBEPP_HAS_RANGES', 'operator_call_size_bytes']

FREE = [dict(name='get_value',
             sig=r'\bget_value\s*\(\s*const\s+View\s+view\s*,\s*const\s+std::size_t\s+offset\s*\)',
             tbind={'View': 'view', 'T': 'sbe', 'U': 'sz', '__targs__': ['size_type', 'size_type', 'E']})]

REF_SIZE_CHECK = ('SBEPP_ASSERT((begin) && ((begin) <= (end)) && '
                  '(((offset) + (size)) <= static_cast< ::std::size_t>((end) - (begin))))')

HEADER = '''-- GENERATED by /verif/extract/methods_dynarray.py from %(src)s
-- (class sbepp::detail::dynamic_array_ref, checked build) on every check run.  Do not edit.
/-
  One definition per member function, rendered statement by statement from the C++ text into the
  monadic DSL of `Sbepp.Rt.DynArray` (`Rt/DynArray.lean`, `Rt/DynArrayDsl.lean`).

  C++ typing facts the translator assumes (everything else is read from the text):
  * `size_type` is an unsigned integer type of `P.w` bytes (`Nat` below `256 ^ P.w`), `value_type` is a
    single-byte type (`Nat` below 256), `iterator`/`pointer` are byte pointers into the memory block
    (`Nat` offsets from the start of the view), `std::size_t` has 64 bits, `difference_type` is `Int`.
  * `(*this)(addressof_tag{})` is offset 0 and is not null, `(*this)(end_ptr_tag{})` is offset `P.avail`;
    `SBEPP_SIZE_CHECK(begin, end, o, s)` over these two is `sizeCheck P o s` (the macro text is compared
    with the expected one, a difference is an extraction failure).
  * Arithmetic whose C++ type is `std::size_t` is wrapped at the operation (`sizeT`).  Arithmetic on
    `size_type` operands (promoted to `int`, or done in `size_type`/`ptrdiff_t`) is done in `Int` and may only
    be used where C++ converts it to `size_type`; `wrapLen P` is applied at that conversion (argument of a
    `size_type` parameter, `static_cast<size_type>`).  Pointer difference is `Int`.
  * Operands and call arguments are evaluated left to right; `&&`/`||` short-circuit.
  * `(InputIt first, InputIt last)` of a template iterator type, `std::initializer_list<value_type>`, a
    range `R&&` and `const char*` are values from outside the memory block: one `List Nat` each.
    `<It>_is_input` says that `iterator_traits<It>::iterator_category` is exactly `input_iterator_tag`
    (otherwise it is `forward_iterator_tag` or derived from it); initializer-list iterators are pointers.
  * `sbe_size_type` wraps a `size_type` (`{v}` and `.value()` are the identity); `x = v` through a
    `reference` stores one byte.  `default_init`, `*_tag{}` only select overloads.
  * the callees `get_primitive`, `set_primitive`, `string_length`, `std::copy`, `std::copy_backward`,
    `std::fill_n`, `std::copy_n`, `std::distance`, `std::begin/end`, `std::ranges::copy` and the two `for`
    loop shapes are DSL primitives (hand-modelled by their specification).
-/
import Sbepp.Rt.DynArrayDsl

set_option linter.unusedVariables false

namespace Sbepp.Extracted.DynArray
open Sbepp.Rt.DynArray (%(open)s)

'''


def pp_variants(text):
    """`#if NAME … #else … #endif` inside a body -> [(variant name, text)]; '' = all conditions false"""
    lines = text.split('\n')
    conds = []
    for ln in lines:
        st = ln.strip()
        if st.startswith('#'):
            m = re.fullmatch(r'#\s*if\s+([A-Za-z_]\w*)', st)
            if m:
                if m.group(1) not in conds:
                    conds.append(m.group(1))
            elif not re.fullmatch(r'#\s*(else|endif)', st):
                raise ExtractError('unsupported preprocessor line %r' % st)
    if not conds:
        return [('', text)]
    if len(conds) > 1:
        raise ExtractError('more than one preprocessor condition in a body: %s' % conds)
    out = []
    for on in (False, True):
        keep = []
        stack = []
        for ln in lines:
            st = ln.strip()
            if st.startswith('#'):
                if re.match(r'#\s*if\b', st):
                    stack.append(on)
                elif re.match(r'#\s*else', st):
                    if not stack:
                        raise ExtractError('#else without #if')
                    stack[-1] = not stack[-1]
                else:
                    if not stack:
                        raise ExtractError('#endif without #if')
                    stack.pop()
                keep.append('')
                continue
            keep.append(ln if all(stack) else '')
        if stack:
            raise ExtractError('unterminated #if')
        out.append((conds[0] if on else '', '\n'.join(keep)))
    return out


def parse_body(text):
    p = Parser(tokenize('{' + text + '}'))
    body = p.block()
    if p.peek()[0] != 'eof':
        raise ExtractError('trailing tokens after the body')
    return body


def find_usings(body):
    out = []
    for s in body:
        if s[0] == 'using':
            out.append(s)
        elif s[0] == 'if':
            out += find_usings(s[2]) + find_usings(s[3] or [])
        elif s[0] == 'for':
            out += find_usings(s[4])
    return out


def lean_name(name):
    n = {'operator[]': 'operator_index', 'operator()': 'operator_call'}.get(name, name)
    return n + '_' if n in LEAN_KEYWORDS else n


def check_macro(src):
    params, body = cxx.parse_define(src, 'SBEPP_SIZE_CHECK')
    if [p.strip() for p in params] != ['begin', 'end', 'offset', 'size']:
        raise ExtractError('SBEPP_SIZE_CHECK parameters are %s' % params)
    got = Parser(tokenize(body)).expr()
    want = Parser(tokenize(REF_SIZE_CHECK)).expr()
    if got != want:
        raise ExtractError('SBEPP_SIZE_CHECK is no longer `%s`' % REF_SIZE_CHECK)
    return cxx.normalise_keep_words(body)


def extract(repo, outdir):
    path = os.path.join(repo, HPP)
    raw = open(path, encoding='utf-8').read()
    src = cxx.strip_comments(raw)
    report = {'source': HPP, 'class': CLASS, 'sha256': hashlib.sha256(raw.encode()).hexdigest(),
              'methods': {}, 'failed': {}, 'skipped': []}
    try:
        report['SBEPP_SIZE_CHECK'] = check_macro(src)
    except (ExtractError, ValueError) as ex:
        report['failed']['SBEPP_SIZE_CHECK'] = str(ex)
    table = []
    try:
        s, e = cxx.find_class_body(src, CLASS)
        members = class_members(src[s:e], src.count('\n', 0, s) + 1)
    except (ExtractError, ValueError) as ex:
        report['failed'][CLASS] = str(ex)
        members = []
    raw_methods = []          # (header dict, header text, body text, line, free spec|None)
    for header, body, line in members:
        try:
            h = parse_header(header)
        except ExtractError as ex:
            report['skipped'].append('line %d: %s' % (line, ex))
            continue
        if h['name'] not in TARGETS:
            report['skipped'].append('%s (line %d)' % (h['name'], line))
            continue
        raw_methods.append((h, header, body, line, None))
    for f in FREE:
        try:
            m = re.search(f['sig'], src)
            if not m:
                raise ExtractError('free function %s not found' % f['name'])
            start = max(src.rfind('}', 0, m.start()), src.rfind(';', 0, m.start())) + 1
            i = src.index('{', m.end())
            j = cxx.match_brace(src, i)
            header = src[start:i]
            h = parse_header(header)
            raw_methods.append((h, header, src[i + 1:j], src.count('\n', 0, m.start()) + 1, f))
        except (ExtractError, ValueError) as ex:
            report['failed'][f['name']] = str(ex)
    for h, header, body, line, free in raw_methods:
        key = '%s(%s)' % (h['name'], ', '.join(p[0] for p in h['params']))
        try:
            tbind = dict(free['tbind']) if free else {}
            params = [(tbind[t] if t in tbind else param_type(t, h['tparams']), n) for t, n in h['params']]
            ret = RET_TYPES.get(h['ret'])
            if ret is None:
                raise ExtractError('unsupported return type %r' % h['ret'])
            for variant, text in pp_variants(body):
                m = Method(h['name'], h['tparams'], params, ret, parse_body(text), line, variant, tbind, bool(free))
                m.header = cxx.normalise_keep_words(strip_template_prefix(header)[1])
                for u in find_usings(m.body):
                    mm = re.fullmatch(r'(?:typename )?std::iterator_traits<(\w+)>::iterator_category', u[2])
                    if mm and mm.group(1) in h['tparams']:
                        m.cat = mm.group(1)
                table.append(m)
        except (ExtractError, ValueError, KeyError, IndexError) as ex:
            report['failed'][key] = 'line %d: %s' % (line, ex)
    # names: plain when the name is unique, else suffixed by the parameter types
    byname = {}
    for h, _, _, _, free in raw_methods:
        byname.setdefault((h['name'], bool(free)), []).append(h)
    for m in table:
        overloaded = len(byname.get((m.name, m.free), [])) > 1 or m.name == 'operator()'
        base = lean_name(m.name)
        if overloaded:
            sufs = [suffix_of(p[0]) for p in m.params]
            if m.name == 'insert_impl':
                sufs = sufs[-1:]
            base = lean_name(m.name).rstrip('_') + ''.join('_' + x for x in sufs)
        m.lean = base + ('_' + m.variant if m.variant else '')
    seen = {}
    for m in list(table):
        if m.lean in seen:
            report['failed'][m.lean] = 'two member functions map to this name (lines %d, %d)' % (seen[m.lean], m.line)
            table.remove(m)
        seen[m.lean] = m.line
    # a call resolves among the base variants only
    callable_table = [m for m in table if not m.variant]
    rendered = {}
    for m in table:
        try:
            r = Render(m, callable_table)
            text = r.render()
            rendered[m.lean] = (m, text, r.calls)
        except (ExtractError, ValueError, KeyError, IndexError, TypeError) as ex:
            report['failed'][m.lean] = 'line %d: %s' % (m.line, ex)
    # definitions before use; a definition whose callee failed fails too
    order = []
    state = {}

    def visit(n, stack=()):
        if state.get(n) == 'done':
            return True
        if n not in rendered or n in stack:
            return False
        for c in rendered[n][2]:
            if not visit(c, stack + (n,)):
                report['failed'].setdefault(n, 'calls %s, which is not available' % c)
                del rendered[n]
                return False
        state[n] = 'done'
        order.append(n)
        return True
    for n in sorted(rendered, key=lambda x: rendered[x][0].line):
        visit(n)
    for n in EXPECTED:
        if n not in order:
            report['failed'].setdefault(n, 'member function not found in class %s' % CLASS)
    defs = []
    for n in order:
        m, text, calls = rendered[n]
        where = 'detail::%s' % m.name if m.free else '%s::%s' % (CLASS, m.name)
        doc = '/-- %s, sbepp.hpp:%d%s\n    `%s` -/' % (
            where, m.line, (' [#if %s]' % m.variant) if m.variant else '', m.header.replace('-/', '- /'))
        defs.append(doc + '\n' + text)
        report['methods'][n] = {'line': m.line, 'cxx': m.header, 'calls': calls}
    text = HEADER % {'src': HPP, 'open': ' '.join(sorted(DSL_NAMES))} + '\n'.join(defs) + '\nend Sbepp.Extracted.DynArray\n'
    write_if_changed(os.path.join(outdir, 'DynArray.lean'), text)
    return report
