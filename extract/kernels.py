"""Kernel whitelist: which small functions of sbepp.hpp are translated into
Lean `Kernel` terms, how their members/parameters are typed and which member
call chains are mapped to typed variables.

Output: lean/Sbepp/Extracted/Kernels.lean + a report (dict).
"""
import os
import re
import json
import hashlib

from . import cxx

HPP = 'sbepp/src/sbepp/sbepp.hpp'

# Each kernel: name, class, signature regex, Lean type params (bound as Lean
# variables of type CTy), params (var, type-term) in order, ret type-term or
# None, aliases, skips.
# Type-terms are Lean terms of type CTy, possibly mentioning the type params.

ITER_TYPES = {'difference_type': 'DT', 'IndexType': 'IT', 'BlockLengthType': 'BT',
              'DifferenceType': 'DT'}

KERNELS = [
    dict(name='bitset_get_bit', cls='bitset_base',
         sig=r'operator\(\)\(\s*get_bit_tag\s*,\s*const\s+choice_index_t\s+n\s*\)\s*const\s+noexcept\s*\{',
         tparams=['T'], params=[('bits', 'T'), ('n', '.u8')], ret='.bool',
         types={'T': 'T'}),
    dict(name='bitset_set_bit', cls='bitset_base',
         sig=r'operator\(\)\(\s*set_bit_tag\s*,\s*const\s+choice_index_t\s+n\s*,\s*const\s+bool\s+b\s*\)\s*noexcept\s*\{',
         tparams=['T'], params=[('bits', 'T'), ('n', '.u8'), ('b', '.bool')], ret=None,
         types={'T': 'T'}),
    dict(name='flat_group_size_bytes', cls='flat_group_base',
         sig=r'std::size_t\s+operator\(\)\(\s*size_bytes_tag\s*\)\s*const\s+noexcept\s*\{',
         tparams=['NT', 'BT'], params=[('hdr', '.u64'), ('num', 'NT'), ('bl', 'BT')], ret='.u64',
         aliases=[(r'sbepp::size_bytes\(dimension\)', 'hdr'),
                  (r'dimension\.numInGroup\(\)\.value\(\)', 'num'),
                  (r'dimension\.blockLength\(\)\.value\(\)', 'bl')],
         skip=[r'^autodimension=']),
    dict(name='ra_iter_inc', cls='random_access_iterator',
         sig=r'random_access_iterator&\s+operator\+\+\(\)\s*noexcept\s*\{',
         tparams=['BT', 'IT'], params=[('ptr', '.ptr'), ('block_length', 'BT'), ('index', 'IT')], ret=None,
         skip=[r'^SBEPP_SIZE_CHECK']),
    dict(name='ra_iter_inc_check', cls='random_access_iterator',
         sig=r'random_access_iterator&\s+operator\+\+\(\)\s*noexcept\s*\{',
         tparams=['BT', 'IT'],
         params=[('ptr', '.ptr'), ('block_length', 'BT'), ('index', 'IT'), ('end', '.ptr')], ret=None,
         macros=True),
    dict(name='ra_iter_dec', cls='random_access_iterator',
         sig=r'random_access_iterator&\s+operator--\(\)\s*noexcept\s*\{',
         tparams=['BT', 'IT'], params=[('ptr', '.ptr'), ('block_length', 'BT'), ('index', 'IT')], ret=None),
    dict(name='ra_iter_add_assign', cls='random_access_iterator',
         sig=r'operator\+=\(\s*difference_type\s+n\s*\)\s*noexcept\s*\{',
         tparams=['BT', 'IT', 'DT'],
         params=[('ptr', '.ptr'), ('block_length', 'BT'), ('index', 'IT'), ('n', 'DT')], ret=None),
    dict(name='ra_iter_sub_assign_arg', cls='random_access_iterator',
         sig=r'operator-=\(\s*difference_type\s+n\s*\)\s*noexcept\s*\{',
         tparams=['DT'], params=[('n', 'DT')], ret='DT',
         # `return *this += -n;`  : the kernel is the argument expression,
         # converted to the parameter type of operator+=
         rewrite=[(r'return\s*\*this\s*\+=\s*(.*)', r'return \1')]),
    dict(name='ra_iter_diff', cls='random_access_iterator',
         sig=r'difference_type\s+operator-\(\s*const\s+random_access_iterator&\s+rhs\s*\)\s*const\s+noexcept\s*\{',
         tparams=['IT', 'DT'], params=[('index', 'IT'), ('rhs_index', 'IT')], ret='DT',
         aliases=[(r'rhs\.index', 'rhs_index')]),
    dict(name='ra_iter_lt', cls='random_access_iterator',
         sig=r'friend\s+constexpr\s+bool\s+operator<\(\s*const\s+random_access_iterator&\s+lhs\s*,\s*const\s+random_access_iterator&\s+rhs\s*\)\s*noexcept\s*\{',
         tparams=['IT'], params=[('lhs_index', 'IT'), ('rhs_index', 'IT')], ret='.bool',
         aliases=[(r'rhs\.index', 'rhs_index'), (r'lhs\.index', 'lhs_index')]),
    dict(name='ra_iter_eq', cls='random_access_iterator',
         sig=r'friend\s+constexpr\s+bool\s+operator==\(\s*const\s+random_access_iterator&\s+lhs\s*,\s*const\s+random_access_iterator&\s+rhs\s*\)\s*noexcept\s*\{',
         tparams=['IT'], params=[('lhs_index', 'IT'), ('rhs_index', 'IT')], ret='.bool',
         aliases=[(r'rhs\.index', 'rhs_index'), (r'lhs\.index', 'lhs_index')]),
    dict(name='dyn_array_size_bytes', cls='dynamic_array_ref',
         sig=r'std::size_t\s+operator\(\)\(\s*detail::size_bytes_tag\s*\)\s*const\s+noexcept\s*\{',
         tparams=['LT'], params=[('size', 'LT')], ret='.u64',
         aliases=[(r'size\(\)', 'size')],
         sizeofs={'size_type': '(.lit .u64 (LT.bits / 8))'}),
    dict(name='validate_and_subtract', cls='size_bytes_checked_visitor',
         sig=r'bool\s+validate_and_subtract\(\s*const\s+std::size_t\s+n\s*\)\s*noexcept\s*\{',
         tparams=[], params=[('size', '.u64'), ('n', '.u64'), ('valid', '.bool')], ret=None,
         flatten_if=True),
    # byte-order conversion: the portable branch (no intrinsics) and the
    # GCC 4.3-4.7 / clang-without-bswap16 16-bit variant.  Free functions of
    # namespace sbepp::detail (cls=None: searched in the whole file); the
    # intrinsic `__builtin_bswap32(v)` is a typed input of the kernel (its
    # value is constrained by the theorem's hypothesis, not modelled here).
    dict(name='byteswap_portable_u64', cls=None,
         sig=r'constexpr\s+std::uint64_t\s+byteswap\(\s*std::uint64_t\s+v\s*\)\s*noexcept\s*\{',
         tparams=[], params=[('v', '.u64')], ret='.u64'),
    dict(name='byteswap_portable_u32', cls=None,
         sig=r'constexpr\s+std::uint32_t\s+byteswap\(\s*std::uint32_t\s+v\s*\)\s*noexcept\s*\{',
         tparams=[], params=[('v', '.u32')], ret='.u32'),
    dict(name='byteswap_portable_u16', cls=None,
         sig=r'constexpr\s+std::uint16_t\s+byteswap\(\s*std::uint16_t\s+v\s*\)\s*noexcept\s*\{',
         tparams=[], params=[('v', '.u16')], ret='.u16'),
    dict(name='byteswap_u16_via_bswap32', cls=None,
         sig=r'inline\s+std::uint16_t\s+byteswap\(\s*std::uint16_t\s+v\s*\)\s*noexcept\s*\{',
         body_contains='__builtin_bswap32',
         tparams=[], params=[('bswap32_v', '.u32')], ret='.u16',
         aliases=[(r'__builtin_bswap32\(v\)', 'bswap32_v')]),
    # positions of the members of a level (the arithmetic behind Rt/Walk.lean): free functions of sbepp::detail
    dict(name='first_dynamic_pos', cls=None,
         sig=r'Group\s+get_first_dynamic_field_view\(\s*const\s+View\s+view\s*\)\s*noexcept\s*\{',
         tparams=['BT'], params=[('level', '.ptr'), ('block_length', 'BT')], ret='.ptr',
         rewrite=[(r'return\s*\{(.*),\s*view\(end_ptr_tag\{\}\)\s*\}', r'return \1')],
         aliases=[(r'view\(get_level_tag\{\}\)', 'level'), (r'view\(get_block_length_tag\{\}\)', 'block_length')]),
    dict(name='next_dynamic_pos', cls=None,
         sig=r'Group\s+get_dynamic_field_view\(\s*const\s+View\s+view\s*,\s*const\s+Prev\s+prev\s*\)\s*noexcept\s*\{',
         tparams=[], params=[('prev_addr', '.ptr'), ('prev_size', '.u64')], ret='.ptr',
         rewrite=[(r'return\s*\{(.*),\s*view\(end_ptr_tag\{\}\)\s*\}', r'return \1')],
         aliases=[(r'prev\(addressof_tag\{\}\)', 'prev_addr'), (r'prev\(size_bytes_tag\{\}\)', 'prev_size')]),
    dict(name='message_level_pos', cls='message_base',
         sig=r'Byte\*\s+operator\(\)\(\s*get_level_tag\s*\)\s*const\s+noexcept\s*\{',
         tparams=[], params=[('header_addr', '.ptr'), ('header_size', '.u64')], ret='.ptr',
         skip=[r'^autoheader='],
         aliases=[(r'header\(addressof_tag\{\}\)', 'header_addr'), (r'header\(size_bytes_tag\{\}\)', 'header_size')]),
    dict(name='message_cursor_size', cls='message_base',
         sig=r'operator\(\)\(\s*size_bytes_tag\s*,\s*cursor<Byte2>&\s+c\s*\)\s*const\s+noexcept\s*\{',
         tparams=[], params=[('cursor_ptr', '.ptr'), ('addr', '.ptr')], ret='.u64',
         aliases=[(r'c\.pointer\(\)', 'cursor_ptr'), (r'\(\*this\)\(addressof_tag\{\}\)', 'addr')]),
]


def lean_list(items):
    return '[' + ', '.join(items) + ']'


def flatten_if(body):
    """`if(c){ a = x; } else { b = y; } return r;`  ->  conditional
    assignments.  Only the exact shape used by validate_and_subtract."""
    m = re.match(r'\s*if\s*\((.*?)\)\s*\{(.*?)\}\s*else\s*\{(.*?)\}\s*(.*)$', body, re.S)
    if not m:
        raise cxx.ExtractError('flatten_if: unexpected shape')
    cond, then, els, rest = m.groups()
    out = []
    seen = set()
    for branch, other, pos in ((then, els, True), (els, then, False)):
        for s in cxx.split_statements(branch):
            mm = re.match(r'\s*([A-Za-z_]\w*)\s*(\+=|-=|=)\s*(.*)$', s, re.S)
            if not mm:
                raise cxx.ExtractError('flatten_if: statement %r' % s)
            var, op, rhs = mm.groups()
            if op != '=':
                rhs = '%s %s (%s)' % (var, op[0], rhs)
            c = '(%s)' % cond if pos else '!(%s)' % cond
            # evaluate all conditions on the *entry* state: introduce temporaries
            out.append((var, 'static_cast<bool>(__c) ? (%s) : %s' % (rhs, var) if pos
                        else 'static_cast<bool>(__c) ? %s : (%s)' % (var, rhs)))
            seen.add(var)
    stm = 'const bool __c = %s;' % cond
    for var, e in out:
        stm += ' %s = %s;' % (var, e)
    return stm + ' ' + rest


def extract(repo, outdir):
    path = os.path.join(repo, HPP)
    raw = open(path, encoding='utf-8').read()
    src = cxx.strip_comments(raw)
    report = {'source': HPP, 'sha256': hashlib.sha256(raw.encode()).hexdigest(), 'kernels': {}, 'failed': {}}
    macros = {}
    try:
        macros['SBEPP_SIZE_CHECK'] = cxx.parse_define(src, 'SBEPP_SIZE_CHECK')
        report['SBEPP_SIZE_CHECK'] = macros['SBEPP_SIZE_CHECK'][1]
    except cxx.ExtractError as e:
        report['failed']['SBEPP_SIZE_CHECK'] = str(e)
    defs = []
    for k in KERNELS:
        try:
            s, e = cxx.find_class_body(src, k['cls']) if k['cls'] else (0, None)
            if k.get('body_contains'):
                nth = 0
                while True:
                    body, line = cxx.find_function(src, k['sig'], s, e, nth=nth)
                    if k['body_contains'] in body:
                        break
                    nth += 1
            else:
                body, line = cxx.find_function(src, k['sig'], s, e)
            for pat, rep in k.get('rewrite', []):
                body = re.sub(pat, rep, body.strip(), flags=re.S)
            if k.get('flatten_if'):
                body = flatten_if(body)
            types = dict(k.get('types', {}))
            for tp in k['tparams']:
                types.setdefault(tp, tp)
            types.update({a: b for a, b in ITER_TYPES.items() if b in k['tparams']})
            ctx = cxx.Ctx(types=types, aliases=k.get('aliases', []), consts=k.get('consts', {}),
                          sizeofs=k.get('sizeofs', {}))
            mac = {}
            if k.get('macros'):
                # SBEPP_ASSERT stays a statement; SBEPP_SIZE_CHECK expands to it
                mac = dict(macros)
                if 'SBEPP_SIZE_CHECK' not in mac:
                    raise cxx.ExtractError('SBEPP_SIZE_CHECK definition unavailable')
            stmts, ret = cxx.translate_body(body, ctx, k['ret'], macros=mac, skip=k.get('skip'))
            if k['ret'] and ret is None:
                raise cxx.ExtractError('no return expression found')
            binders = ''.join(' (%s : CTy)' % t for t in k['tparams'])
            params = lean_list('("%s", %s)' % (v, t) for v, t in k['params'])
            d = 'def %s%s : Kernel :=\n  { params := %s,\n    body := %s,\n    ret := %s }\n' % (
                k['name'], binders, params, lean_list(stmts),
                ('some ' + ret) if ret else 'none')
            defs.append('/-- %s::%s, sbepp.hpp:%d\n%s -/\n%s' % (
                k['cls'] or 'detail', k['name'], line, cxx.normalise_keep_words(body).replace('-/', '- /'), d))
            report['kernels'][k['name']] = {'line': line, 'text': cxx.normalise_keep_words(body)}
        except (cxx.ExtractError, ValueError, AssertionError, KeyError, IndexError) as ex:
            report['failed'][k['name']] = str(ex)
            # stub so that the model driver still builds; no theorem about the
            # kernel can be proved from it
            binders = ''.join(' (%s : CTy)' % t for t in k['tparams'])
            params = lean_list('("%s", %s)' % (v, t) for v, t in k['params'])
            defs.append('/-- EXTRACTION FAILED: %s -/\ndef %s%s : Kernel :=\n  { params := %s, body := [(.assert (.lit .bool 0))], ret := none }\n' % (
                str(ex).replace('-/', '- /'), k['name'], binders, params))
    text = ('-- GENERATED by /verif/extract from %s on every check run. Do not edit.\n'
            'import Sbepp.Base.Kernel\n\nnamespace Sbepp.Extracted\nopen Sbepp\n\n' % HPP
            + '\n'.join(defs) + '\nend Sbepp.Extracted\n')
    write_if_changed(os.path.join(outdir, 'Kernels.lean'), text)
    return report


def write_if_changed(path, text):
    try:
        if open(path, encoding='utf-8').read() == text:
            return False
    except FileNotFoundError:
        pass
    os.makedirs(os.path.dirname(path), exist_ok=True)
    tmp = path + '.tmp%d' % os.getpid()
    with open(tmp, 'w', encoding='utf-8') as f:
        f.write(text)
    os.replace(tmp, path)
    return True
