"""What sbeppc's `fmt` templates put into the scopes of the generated code (C07).

From the raw-string templates of the generator sources (types_compiler.hpp,
messages_compiler.hpp, normal_accessors.hpp, traits_generator.hpp,
tags_generator.hpp, schema_compiler.hpp, utils.hpp) this extractor derives, per
generator function (= per kind of generated declaration):

* the template parameter names of generated class / alias templates
  (`template<typename Byte> class {name}`),
* for every generated member that carries a schema name (`{name}` ...): the
  template parameters of its own template header (`T`, `Cursor`), and the names
  (template parameters, packs, function parameters, locals) in whose scope the
  schema name is *used unqualified* (`{name}(std::forward<Args>(args)...)`,
  `return {name}(v);`, `const auto last = {last_member}();`),
* generated type names used unqualified inside a template that has template
  parameters (`tag_invoke(..., {enum} e, Visitor& visitor)`),
* identifiers used unqualified in the body of generated value-type classes and
  members of value objects accessed with `.` by generated code (`value_type`,
  `v.value()`),
* unqualified uses of namespace `std` (`std::forward`, `std::size_t`),
* injected base-class names, fixed namespace names, free functions generated next
  to types (`tag_invoke`),
* `is_cpp_keyword` / `is_reserved_cpp_namespace` of sbe_schema_cpp_validator.hpp,
* object-like / function-like macro names (not reserved identifiers) that are
  defined after `#include <sbepp/sbepp.hpp>` with the installed compilers.

Output: lean/Sbepp/Extracted/Templates.lean + a report.  The table ROLE below
says which generator function produces which kind of declaration; a function that
disappears is reported by name.
"""
import hashlib
import os
import re
import subprocess

from .kernels import write_if_changed

SRC = 'sbeppc/src/sbepp/sbeppc/'
FILES = ['types_compiler.hpp', 'messages_compiler.hpp', 'normal_accessors.hpp', 'traits_generator.hpp',
         'tags_generator.hpp', 'schema_compiler.hpp', 'utils.hpp']

# generator function -> (scope kind, member kind): which declaration its template produces.
# scope kinds: composite | level (message and entry classes) | set | enumNs (namespace of an enum) | typeClass |
#              message | entry | group | traits | tags | file
ROLE = {
    'normal_accessors.hpp:make_constant_accessor': ('member', 'constAccessor'),
    'normal_accessors.hpp:make_type_accessor': ('member', 'typeAccessor'),
    'normal_accessors.hpp:make_accessor#0': ('member', 'enumAccessor'),
    'normal_accessors.hpp:make_accessor#1': ('member', 'setAccessor'),
    'normal_accessors.hpp:make_accessor#2': ('member', 'compositeAccessor'),
    'normal_accessors.hpp:make_array_accessor': ('member', 'arrayAccessor'),
    'normal_accessors.hpp:make_by_tag_accessor': ('member', 'byTag'),
    'messages_compiler.hpp:make_group_accessors': ('member', 'groupAccessor'),
    'messages_compiler.hpp:make_first_data_accessor': ('member', 'dataAccessor'),
    'messages_compiler.hpp:make_data_accessor': ('member', 'dataAccessor'),
    'messages_compiler.hpp:make_primitive_cursor_accessors': ('member', 'cursorValue'),
    'messages_compiler.hpp:make_array_cursor_accessors': ('member', 'cursorView'),
    'messages_compiler.hpp:make_type_cursor_accessors': ('member', 'cursorValue'),
    'messages_compiler.hpp:make_cursor_accessors#0': ('member', 'cursorValue'),
    'messages_compiler.hpp:make_cursor_accessors#1': ('member', 'cursorView'),
    'messages_compiler.hpp:make_last_primitive_cursor_accessors': ('member', 'cursorValue'),
    'messages_compiler.hpp:make_last_array_cursor_accessor': ('member', 'cursorView'),
    'messages_compiler.hpp:make_last_type_cursor_accessors': ('member', 'cursorValue'),
    'messages_compiler.hpp:make_last_cursor_accessors#0': ('member', 'cursorValue'),
    'messages_compiler.hpp:make_last_cursor_accessors#1': ('member', 'cursorView'),
    'messages_compiler.hpp:make_first_group_cursor_accessor': ('member', 'cursorGroup'),
    'messages_compiler.hpp:make_group_cursor_accessor': ('member', 'cursorGroup'),
    'messages_compiler.hpp:make_first_data_cursor_accessor': ('member', 'cursorData'),
    'messages_compiler.hpp:make_data_cursor_accessor': ('member', 'cursorData'),
    'messages_compiler.hpp:make_level_size_bytes_impl': ('member', 'lastMember'),
    'messages_compiler.hpp:make_member_visit_calls': ('member', 'visitCall'),
    'messages_compiler.hpp:make_entry_cursor_constructor': ('class', 'entryCtor'),
    'messages_compiler.hpp:make_group_entry': ('class', 'entry'),
    'messages_compiler.hpp:make_group': ('class', 'group'),
    'messages_compiler.hpp:compile_message': ('class', 'message'),
    'messages_compiler.hpp:make_group_header_filler': ('fixed', 'groupHeaderFiller'),
    'messages_compiler.hpp:make_message_header_filler': ('fixed', 'messageHeaderFiller'),
    'messages_compiler.hpp:make_visit_children': ('fixed', 'levelVisitChildren'),
    'types_compiler.hpp:make_constant_type': ('class', 'constAlias'),
    'types_compiler.hpp:make_array_type': ('class', 'arrayAlias'),
    'types_compiler.hpp:make_required_type': ('class', 'requiredType'),
    'types_compiler.hpp:make_optional_type': ('class', 'optionalType'),
    'types_compiler.hpp:make_enum_visit_impl': ('class', 'enumVisit'),
    'types_compiler.hpp:compile_encoding#0': ('class', 'enum'),
    'types_compiler.hpp:make_set_accessors': ('member', 'setChoice'),
    'types_compiler.hpp:make_visit_set_impl': ('member', 'setVisitCall'),
    'types_compiler.hpp:make_visit_set_impl2': ('member', 'setVisitCall'),
    'types_compiler.hpp:compile_encoding#1': ('class', 'set'),
    'types_compiler.hpp:make_children_visit_calls': ('member', 'visitCall'),
    'types_compiler.hpp:make_visit_children': ('fixed', 'compositeVisitChildren'),
    'types_compiler.hpp:compile_encoding#2': ('class', 'composite'),
    'utils.hpp:make_alias_template': ('class', 'aliasTemplate'),
    'schema_compiler.hpp:make_schema_header_forward_declaration': ('class', 'headerForward'),
}

# placeholders that stand for the schema name of a generated *member* / of a generated *type*
MEMBER_PH = {'name', 'last_member', 'prev_group', 'prev_data', 'last_group', 'choice_name'}
TYPE_PH = {'name', 'type_name', 'class_name', 'enum', 'enum_type', 'impl_name', 'public_name'}

CXX_WORDS = {'template', 'typename', 'class', 'struct', 'public', 'using', 'static', 'constexpr', 'const', 'noexcept',
             'return', 'auto', 'void', 'bool', 'char', 'operator', 'this', 'switch', 'case', 'default', 'break', 'enum',
             'namespace', 'decltype', 'sizeof', 'true', 'false', 'if', 'else', 'for', 'while', 'int', 'unsigned', 'float',
             'double', 'long', 'short', 'signed'}


class ExtractError(Exception):
    pass


# ------------------------------------------------------------------ scanning the generator sources

def scan_raw_strings(src):
    """[(function name, ordinal among equally named functions, raw template text, line)] for every raw string
    `R"(...)"` in a class member function body"""
    out = []
    i, n = 0, len(src)
    depth = 0
    header = ''
    func_stack = []   # (name, depth at which its body was opened)
    counts = {}
    seen = {}
    while i < n:
        c = src[i]
        if src.startswith('//', i):
            j = src.find('\n', i)
            i = n if j < 0 else j
            continue
        if src.startswith('/*', i):
            j = src.find('*/', i + 2)
            i = n if j < 0 else j + 2
            continue
        if src.startswith('R"(', i):
            j = src.find(')"', i + 3)
            if j < 0:
                raise ExtractError('unterminated raw string')
            if func_stack:
                out.append((func_stack[0][0], src[i + 3:j], src.count('\n', 0, i) + 1))
            i = j + 2
            header += ' "" '
            continue
        if c == '"':
            j = i + 1
            while j < n and src[j] != '"':
                if src[j] == '\\':
                    j += 1
                j += 1
            if func_stack and '{' in src[i + 1:j]:
                # format strings written as ordinary literals (`"v.{visitor}(this->{name}(), {tag}{{}})"`)
                out.append((func_stack[0][0], '\x00' + src[i + 1:j].replace('\\"', '"'), src.count('\n', 0, i) + 1))
            i = j + 1
            header += ' "" '
            continue
        if c == "'":
            j = i + 1
            while j < n and src[j] != "'":
                if src[j] == '\\':
                    j += 1
                j += 1
            i = j + 1
            continue
        if c == '{':
            if not func_stack and depth >= 1:
                m = re.search(r'([A-Za-z_]\w*)\s*\((?:[^()]|\((?:[^()]|\([^()]*\))*\))*\)\s*(?:const)?\s*(?:noexcept)?\s*$',
                              header.strip())
                if m and m.group(1) not in ('if', 'for', 'while', 'switch', 'catch'):
                    name = m.group(1)
                    k = counts.get(name, 0)
                    counts[name] = k + 1
                    func_stack.append(('%s#%d' % (name, k), depth))
            depth += 1
            header = ''
        elif c == '}':
            depth -= 1
            if func_stack and depth == func_stack[-1][1]:
                func_stack.pop()
            header = ''
        elif c == ';':
            header = ''
        else:
            header += c
        i += 1
    return out


def normalise_names(items):
    """`f#0` -> `f` when only one function of that name carries templates, `f#k` stays otherwise"""
    names = {}
    for f, _, _ in items:
        base = f.split('#')[0]
        names.setdefault(base, set()).add(f)
    out = []
    for f, t, l in items:
        base = f.split('#')[0]
        if len(names[base]) == 1:
            out.append((base, t, l))
        else:
            idx = sorted(names[base], key=lambda x: int(x.split('#')[1])).index(f)
            out.append(('%s#%d' % (base, idx), t, l))
    return out


# ------------------------------------------------------------------ analysing one template

TOK = re.compile(r'\s*(?:(?P<ph>\x01\w*\x02)|(?P<id>[A-Za-z_]\w*)|(?P<num>\d\w*)|(?P<str>"(?:[^"\\]|\\.)*")|'
                 r'(?P<chr>\'(?:[^\'\\]|\\.)*\')|(?P<op>::|->|\.\.\.|&&|\|\||[-+*/%<>=!&|^~?:;,.(){}\[\]#\\@$]))')


def tokens_of(tpl):
    """fmt template -> tokens: ('ph', name) placeholders, ('id', x), ('op', x), ('lit', x)"""
    s = tpl.replace('{{', '\x03').replace('}}', '\x04')
    s = re.sub(r'\{(\w*)\}', lambda m: '\x01' + m.group(1) + '\x02', s)
    s = s.replace('\x03', '{').replace('\x04', '}')
    s = re.sub(r'//[^\n]*', '', s)
    out = []
    i = 0
    while i < len(s):
        m = TOK.match(s, i)
        if not m:
            if s[i:].strip() == '':
                break
            i += 1
            continue
        i = m.end()
        if m.group('ph') is not None:
            out.append(('ph', m.group('ph')[1:-1]))
        elif m.group('id') is not None:
            out.append(('id', m.group('id')))
        elif m.group('op') is not None:
            out.append(('op', m.group('op')))
        else:
            out.append(('lit', m.group(0).strip()))
    return out


def template_params(toks, i):
    """toks[i] == id 'template'; returns (names, index after the closing '>')"""
    names = []
    j = i + 1
    if j >= len(toks) or toks[j] != ('op', '<'):
        return names, j
    depth = 0
    while j < len(toks):
        t = toks[j]
        if t == ('op', '<'):
            depth += 1
        elif t == ('op', '>'):
            depth -= 1
            if depth == 0:
                return names, j + 1
        elif t in (('id', 'typename'), ('id', 'class')) and depth == 1:
            k = j + 1
            if k < len(toks) and toks[k] == ('op', '...'):
                k += 1
            if k < len(toks) and toks[k][0] == 'id' and toks[k + 1] in (('op', ','), ('op', '>'), ('op', '=')):
                names.append(toks[k][1])
        j += 1
    return names, j


def analyse(tpl):
    """facts about one template text"""
    toks = tokens_of(tpl)
    facts = {'class_templates': [], 'classes': [], 'aliases': [], 'declares': [], 'uses': [], 'type_uses': [],
             'unqualified': set(), 'dot_members': set(), 'std_unqualified': False, 'bases': set(),
             'functions': set(), 'namespaces': set()}
    n = len(toks)

    def prev(i):
        return toks[i - 1] if i > 0 else ('op', '')

    def nxt(i):
        return toks[i + 1] if i + 1 < n else ('op', '')

    # pass 1: names in scope at every token.  A scope is opened by `template<...>` (until the end of the
    # declaration that follows), by a parameter list (until the end of the function body) and by `auto x =`.
    scopes = [[]]        # stack of name lists; brace blocks push
    pending = []         # template parameters / function parameters waiting for the declaration's body or `;`
    brace_marks = []     # for each open brace: number of pending names adopted
    paren = 0
    i = 0
    decl_tparams = []    # template parameters of the declaration being read
    decl_start = True
    while i < n:
        t = toks[i]
        if t == ('id', 'template') and nxt(i) == ('op', '<'):
            names, j = template_params(toks, i)
            decl_tparams = decl_tparams + names
            pending += names
            i = j
            continue
        inscope = [x for sc in scopes for x in sc] + pending
        if t[0] == 'id':
            w = t[1]
            p = prev(i)
            q = nxt(i)
            qualified = p in (('op', '::'), ('op', '.'), ('op', '->'))
            if w == 'std' and q == ('op', '::') and not qualified:
                facts['std_unqualified'] = True
            if p == ('op', '.') and q == ('op', '('):
                facts['dot_members'].add(w)
            if w not in CXX_WORDS and not qualified and q != ('op', '::') and not w.startswith('SBEPP_'):
                facts['unqualified'].add(w)
            if w in ('class', 'struct') and q[0] in ('ph', 'id') and not (p == ('id', 'enum')):
                # class / struct head
                name = q
                k = i + 2
                if name[0] == 'ph':
                    (facts['class_templates'] if decl_tparams else facts['classes']).append((name[1], list(decl_tparams)))
                # bases: `: public ::a::b::base<` ... up to `{`
                while k < n and toks[k] not in (('op', '{'), ('op', ';')):
                    if toks[k][0] == 'id' and toks[k + 1] == ('op', '<') and toks[k - 1] == ('op', '::'):
                        facts['bases'].add(toks[k][1])
                    k += 1
            if w == 'namespace' and q[0] == 'id':
                facts['namespaces'].add(q[1])
            if w == 'using' and q[0] == 'ph' and toks[i + 2] == ('op', '=') and decl_tparams:
                facts['aliases'].append((q[1], list(decl_tparams)))
            # function parameter / local names: identifier directly before `,` `)` `=` inside a parameter list,
            # or after `auto`
            if p in (('id', 'auto'),) and q == ('op', '='):
                scopes[-1].append(w)
            if paren > 0 and q in (('op', ','), ('op', ')')) and p[0] in ('id', 'ph', 'op') and p not in (
                    ('op', '('), ('op', ','), ('op', '::'), ('op', '.'), ('op', '->'), ('op', '<')) and \
                    w not in CXX_WORDS and (p[0] != 'op' or p[1] in ('&', '&&', '*', '>', '...')):
                pending.append(w)
            if q == ('op', '(') and p[0] in ('id', 'ph', 'op') and not qualified and w not in CXX_WORDS and \
                    (p[0] != 'op' or p[1] in ('&', '*', '>')) and paren == 0 and p != ('id', 'return'):
                facts['functions'].add(w)
        elif t[0] == 'ph':
            name = t[1]
            p = prev(i)
            q = nxt(i)
            qualified = p in (('op', '::'), ('op', '.'), ('op', '->'))
            if not qualified:
                declarator = (q == ('op', '(') and paren == 0 and p not in (('id', 'return'), ('op', '='), ('op', '('), ('op', ','))
                              and (p[0] in ('id', 'ph') or p in (('op', '>'), ('op', '&'), ('op', '*'))) and len(scopes) <= 2
                              and p not in (('id', 'class'), ('id', 'struct'), ('id', 'using')))
                if name in MEMBER_PH and declarator:
                    facts['declares'].append((name, list(decl_tparams)))
                elif name in MEMBER_PH and q == ('op', '(') :
                    facts['uses'].append((name, sorted(set(inscope))))
                elif name in TYPE_PH and p not in (('id', 'class'), ('id', 'struct'), ('id', 'using'), ('id', 'enum')) and inscope:
                    facts['type_uses'].append((name, sorted(set(inscope))))
        elif t == ('op', '('):
            paren += 1
        elif t == ('op', ')'):
            paren -= 1
        elif t == ('op', '{'):
            scopes.append(list(pending))
            brace_marks.append(len(pending))
            pending = []
            decl_tparams = []
        elif t == ('op', '}'):
            if len(scopes) > 1:
                scopes.pop()
            pending = []
            decl_tparams = []
        elif t == ('op', ';') and paren == 0:
            pending = []
            decl_tparams = []
        i += 1
    return facts


# ------------------------------------------------------------------ keyword list

def extract_keywords(src):
    m = re.search(r'static\s+bool\s+is_cpp_keyword\s*\(', src)
    if not m:
        raise ExtractError('is_cpp_keyword not found')
    b = src.index('{', m.end())
    depth, j = 0, b
    while True:
        if src[j] == '{':
            depth += 1
        elif src[j] == '}':
            depth -= 1
            if depth == 0:
                break
        j += 1
    body = src[b:j]
    k = re.search(r'cpp_keywords\s*\{(.*?)\};', body, re.S)
    if not k or 'return cpp_keywords.count(str);' not in body:
        raise ExtractError('is_cpp_keyword: body not recognised')
    kws = re.findall(r'"(\w+)"', k.group(1))
    if not kws or re.sub(r'"\w+"|[\s,]', '', k.group(1)):
        raise ExtractError('is_cpp_keyword: initialiser not recognised')
    m = re.search(r'static\s+bool\s+is_reserved_cpp_namespace\s*\([^)]*\)\s*\{\s*return\s*(.*?);\s*\}', src, re.S)
    if not m:
        raise ExtractError('is_reserved_cpp_namespace not found')
    res = re.findall(r'str\s*==\s*"(\w+)"', m.group(1))
    if not res or re.sub(r'\(\s*str\s*==\s*"\w+"\s*\)|\|\||\s', '', m.group(1)):
        raise ExtractError('is_reserved_cpp_namespace: expression not recognised')
    # validate_name must reject exactly the keywords (reserved identifiers only warn)
    v = re.search(r'void\s+validate_name\s*\(\s*const\s+std::string_view\s+name\s*,[^)]*\)\s*\{(.*?)\n    \}', src, re.S)
    if not v or not re.search(r'if\s*\(\s*is_cpp_keyword\s*\(\s*name\s*\)\s*\)\s*\{\s*throw_error', v.group(1)):
        raise ExtractError('validate_name: keyword rejection not recognised')
    return kws, res


# ------------------------------------------------------------------ platform macros

def platform_macros(repo):
    """non-reserved macro names defined after including sbepp.hpp, per installed compiler (first and last
    supported standard); object-like and function-like separately"""
    obj, fun, used = set(), set(), []
    for cxx in ('g++', 'clang++-14'):
        for std in ('c++11', 'c++2b'):
            try:
                p = subprocess.run([cxx, '-std=' + std, '-I' + os.path.join(repo, 'sbepp/src'), '-x', 'c++', '-dM', '-E', '-'],
                                   input='#include <sbepp/sbepp.hpp>\n', stdout=subprocess.PIPE, stderr=subprocess.DEVNULL,
                                   text=True, timeout=120)
            except (OSError, subprocess.TimeoutExpired):
                continue
            if p.returncode != 0:
                continue
            used.append('%s -std=%s' % (cxx, std))
            for line in p.stdout.splitlines():
                m = re.match(r'#define\s+([A-Za-z]\w*)(\()?', line)
                if not m:
                    continue
                name = m.group(1)
                if '__' in name or name.startswith('SBEPP_'):
                    continue
                # `#define stdin stdin`: harmless
                rest = line[m.end():].strip()
                if not m.group(2) and rest == name:
                    continue
                (fun if m.group(2) else obj).add(name)
    return sorted(obj), sorted(fun - obj), used



# ------------------------------------------------------------------ members of the runtime base classes

BASES = {'requiredType': 'required_base', 'optionalType': 'optional_base', 'set': 'bitset_base',
         'composite': 'composite_base', 'message': 'message_base', 'entry': 'entry_base',
         'groupFlat': 'flat_group_base', 'groupNested': 'nested_group_base', 'byteRange': 'byte_range'}

NOT_MEMBERS = {'if', 'for', 'while', 'switch', 'return', 'sizeof', 'decltype', 'noexcept', 'static_assert', 'alignas',
               'alignof', 'typename', 'template', 'operator', 'static_cast', 'reinterpret_cast', 'const_cast',
               'explicit', 'constexpr', 'defined', 'catch'}


def strip_cxx_comments(src):
    out = []
    i, n = 0, len(src)
    while i < n:
        if src.startswith('//', i):
            j = src.find('\n', i)
            i = n if j < 0 else j
        elif src.startswith('/*', i):
            j = src.find('*/', i + 2)
            out.append('\n' * src.count('\n', i, (n if j < 0 else j)))
            i = n if j < 0 else j + 2
        elif src[i] == '"':
            j = i + 1
            while j < n and src[j] != '"':
                j += 2 if src[j] == '\\' else 1
            out.append('""')
            i = j + 1
        elif src[i] == "'" and i + 2 < n and (src[i + 2] == "'" or src[i + 1] == '\\'):
            j = src.find("'", i + 2)
            out.append("' '")
            i = j + 1
        else:
            out.append(src[i])
            i += 1
    return ''.join(out)


def base_members(src, cls):
    """names declared directly in the body of `class cls` (member functions, aliases, nested types); private
    ones included (a derived class of the same name hides them as well)"""
    m = re.search(r'\bclass\s+(?:alignas\s*\([^)]*\)\s*)?%s\b[^;{]*\{' % re.escape(cls), src)
    if not m:
        raise ExtractError('runtime class `%s` not found in sbepp.hpp' % cls)
    i = m.end() - 1
    depth = 0
    j = i
    while True:
        if src[j] == '{':
            depth += 1
        elif src[j] == '}':
            depth -= 1
            if depth == 0:
                break
        j += 1
    body = src[i + 1:j]
    names = set()
    depth = 0
    paren = 0
    toks = re.findall(r'[A-Za-z_]\w*|::|->|[{}();,.<>=&*~]', body)
    for k, t in enumerate(toks):
        if t == '{':
            depth += 1
        elif t == '}':
            depth -= 1
        elif t == '(':
            paren += 1
        elif t == ')':
            paren -= 1
        elif depth == 0 and paren == 0 and re.match(r'[A-Za-z_]', t):
            nxt = toks[k + 1] if k + 1 < len(toks) else ''
            prv = toks[k - 1] if k > 0 else ''
            if prv in ('::', '.', '->', '~') or t in NOT_MEMBERS or t.startswith('SBEPP_') or t == cls:
                continue
            if t in CXX_WORDS:
                continue
            if nxt == '(' and prv not in ('(', ',', '=', 'return'):
                names.add(t)
            elif prv == 'using' and nxt == '=':
                names.add(t)
    return sorted(names)


# ------------------------------------------------------------------ how values and text are rendered (utils.hpp)

def no_comments(src):
    """remove // and /* */ comments, keep string and character literals as they are"""
    out = []
    i, n = 0, len(src)
    while i < n:
        if src.startswith('//', i):
            j = src.find('\n', i)
            i = n if j < 0 else j
        elif src.startswith('/*', i):
            j = src.find('*/', i + 2)
            i = n if j < 0 else j + 2
        elif src.startswith('R"(', i):
            j = src.find(')"', i + 3)
            j = n if j < 0 else j + 2
            out.append(src[i:j])
            i = j
        elif src[i] == '"' or (src[i] == "'" and i + 2 < n and (src[i + 2] == "'" or src[i + 1] == '\\')):
            q = src[i]
            j = i + 1
            while j < n and src[j] != q:
                j += 2 if src[j] == '\\' else 1
            out.append(src[i:j + 1])
            i = j + 1
        else:
            out.append(src[i])
            i += 1
    return ''.join(out)


def fn_body(src, name):
    """text of the body of the (first) function `name`, comments removed, blanks squeezed"""
    src = no_comments(src)
    m = re.search(r'\b%s\s*\(' % re.escape(name), src)
    while m:
        # skip calls: a definition is followed by `{` after its parameter list
        i = m.end() - 1
        depth = 0
        j = i
        while j < len(src):
            if src[j] == '(':
                depth += 1
            elif src[j] == ')':
                depth -= 1
                if depth == 0:
                    break
            j += 1
        k = j + 1
        while k < len(src) and src[k] in ' \t\r\n':
            k += 1
        if src.startswith('const', k):
            k += 5
            while k < len(src) and src[k] in ' \t\r\n':
                k += 1
        if k < len(src) and src[k] == '{':
            depth = 0
            e = k
            while True:
                if src[e] == '{':
                    depth += 1
                elif src[e] == '}':
                    depth -= 1
                    if depth == 0:
                        break
                elif src[e] in '"\'':
                    q = src[e]
                    e += 1
                    while src[e] != q:
                        e += 2 if src[e] == '\\' else 1
                e += 1
            body = src[k + 1:e]
            body = re.sub(r'//[^\n]*', '', body)
            return re.sub(r'\s+', ' ', body).strip()
        m = re.search(r'\b%s\s*\(' % re.escape(name), src[m.end():]) and re.compile(r'\b%s\s*\(' % re.escape(name)).search(src, m.end())
    return None


STRIP_BODY = ("const auto is_negative = (!value.empty() && (value[0] == '-')); auto digits = value.substr(is_negative ? 1 : 0); "
              "const auto first_non_zero = digits.find_first_not_of('0'); if(first_non_zero == std::string_view::npos) { "
              "digits = digits.empty() ? digits : digits.substr(digits.size() - 1); } else { digits = digits.substr(first_non_zero); } "
              "return fmt::format(\"{}{}\", is_negative ? \"-\" : \"\", digits);")
ESCAPE_BODY = ("std::string res; res.reserve(text.size()); for(const char ch : text) { switch(ch) { "
               "case '\"': res += \"\\\\\\\"\"; break; case '\\'': res += \"\\\\'\"; break; case '\\\\': res += \"\\\\\\\\\"; break; "
               "case '?': res += \"\\\\?\"; break; case '\\n': res += \"\\\\n\"; break; case '\\r': res += \"\\\\r\"; break; "
               "case '\\t': res += \"\\\\t\"; break; default: if(static_cast<unsigned char>(ch) < 0x20) { "
               "res += fmt::format(\"\\\\{:03o}\", static_cast<unsigned char>(ch)); } else { res += ch; } } } return res;")
TEXT_ARGS = ('description', 'semantic_type', 'character_encoding', 'package', 'semantic_version')


def literal_rendering(repo, report):
    """flags that say which rendering the Lean model (Gen/Literals.lean) has to describe; every flag is `true`
    only if the C++ text has exactly the shape the Lean transliteration was written from"""
    flags = {'stripsLeadingZeros': False, 'floatDotZero': False, 'escapesLiterals': False, 'valueRefRecordsDependency': False}
    notes = {}
    utils = open(os.path.join(repo, SRC, 'utils.hpp'), encoding='utf-8').read()
    # to_integer_literal: both returns of a pasted text go through strip_leading_zeros, whose body is the known one
    til = fn_body(utils, 'to_integer_literal')
    slz = fn_body(utils, 'strip_leading_zeros')
    if til is None:
        raise ExtractError('utils::to_integer_literal not found')
    pasted_raw = 'return std::string{value};' in til or 'fmt::format("{}UL", value)' in til
    pasted_stripped = 'return strip_leading_zeros(value);' in til and 'fmt::format("{}UL", strip_leading_zeros(value))' in til
    if pasted_stripped and not pasted_raw:
        if slz != STRIP_BODY:
            raise ExtractError('utils::strip_leading_zeros: body not recognised')
        flags['stripsLeadingZeros'] = True
    elif not (pasted_raw and not pasted_stripped):
        raise ExtractError('utils::to_integer_literal: returns not recognised')
    nlv = fn_body(utils, 'numeric_literal_to_value')
    if nlv is None:
        raise ExtractError('utils::numeric_literal_to_value not found')
    if 'if(value.find_first_of(".eE") == std::string_view::npos) { return fmt::format("{}.0", value); } return std::string{value};' in nlv:
        flags['floatDotZero'] = True
    elif 'return std::string{value};' not in nlv or '.0' in nlv:
        raise ExtractError('utils::numeric_literal_to_value: floating-point branch not recognised')
    # escaping: every free-text argument of the traits templates, string / char constants, char enumerators
    traits = open(os.path.join(repo, SRC, 'traits_generator.hpp'), encoding='utf-8').read()
    tc = open(os.path.join(repo, SRC, 'types_compiler.hpp'), encoding='utf-8').read()
    args = re.findall(r'fmt::arg\(\s*"(%s)"\s*,\s*([^;]*?)\)\s*[,)]\s*\n' % '|'.join(TEXT_ARGS), traits)
    wrapped = [a for a in args if a[1].lstrip().startswith('utils::escape_literal(')]
    msc = fn_body(utils, 'make_string_constant') or ''
    mcc = fn_body(utils, 'make_char_constant') or ''
    men = fn_body(tc, 'make_enumerators') or ''
    others = ['.append(escape_literal(const_value))' in msc, "fmt::format(\"'{}'\", escape_literal(constant_value))" in mcc,
              'utils::escape_literal(valid_value.value)' in men]
    others_raw = ['.append(const_value)' in msc, "fmt::format(\"'{}'\", constant_value)" in mcc, 'valid_value.name, valid_value.value)' in men]
    notes['text_args'] = len(args)
    notes['text_args_escaped'] = len(wrapped)
    if not args:
        raise ExtractError('traits_generator: no free-text template arguments found')
    if len(wrapped) == len(args) and all(others):
        if fn_body(utils, 'escape_literal') != ESCAPE_BODY:
            raise ExtractError('utils::escape_literal: body not recognised')
        flags['escapesLiterals'] = True
    elif not (not wrapped and all(others_raw)):
        raise ExtractError('escaping is applied at some literal sites only (%d of %d template arguments; constants %r)'
                           % (len(wrapped), len(args), others))
    mc = open(os.path.join(repo, SRC, 'messages_compiler.hpp'), encoding='utf-8').read()
    vre = fn_body(mc, 'value_ref_to_enumerator')
    if vre is None:
        raise ExtractError('messages_compiler::value_ref_to_enumerator not found')
    flags['valueRefRecordsDependency'] = 'dependencies.emplace(e.name);' in vre
    report['literal_rendering'] = dict(flags, **notes)
    return flags


def macros_std_unqualified(repo, used_macros):
    """SBEPP_* function-like macros of sbepp.hpp that generated code invokes and whose replacement says `std::`
    without a leading `::`"""
    raw = open(os.path.join(repo, 'sbepp/src/sbepp/sbepp.hpp'), encoding='utf-8').read()
    out = []
    for name in sorted(used_macros):
        for m in re.finditer(r'#\s*define\s+%s\b((?:[^\n]*\\\n)*[^\n]*)' % re.escape(name), raw):
            if re.search(r'(?<![:\w])std\s*::', m.group(1)):
                out.append(name)
                break
    return out


# ------------------------------------------------------------------ names_generator.hpp: which name is reserved where

NG = 'names_generator.hpp'
SET_NAMES = {'members': 'members', 'entry_members': 'members', 'mangled_type_names': 'mangled',
             'mangled_message_names': 'mangled', 'non_mangled_type_names': 'nonMangled',
             'non_mangled_message_names': 'nonMangled'}
MANGLE_NAME_BODY = ('for(std::size_t n = 0; n != std::numeric_limits<std::size_t>::max(); n++) { const auto mangled_name = '
                    'fmt::format("{}_{}", original_name, n); const auto is_reserved = (reserved_names.count(mangled_name) || ...); '
                    'if(!is_reserved) { return mangled_name; } } throw_error( "{}: can\'t generate a mangled name for `{}`", '
                    'location, original_name);')
MANGLE_GROUP_BODY = ('for(std::size_t n = 0; n != std::numeric_limits<std::size_t>::max(); n++) { const auto mangled_group_name = '
                     'fmt::format("{}_{}", original_name, n); const auto entry_name = make_group_entry_name(mangled_group_name); '
                     'const auto is_reserved = entry_members.count(mangled_group_name) || (reserved_names.count(mangled_group_name) || ...) '
                     '|| entry_members.count(entry_name) || (reserved_names.count(entry_name) || ...); if(!is_reserved) { '
                     'return {mangled_group_name, entry_name}; } } throw_error( "{}: can\'t generate a mangled name for `{}`", '
                     'location, original_name);')
ENTRY_NAME_BODY = 'return fmt::format("{}_entry", group_name);'


def squeeze(t):
    return re.sub(r'\s+', '', t)


def match_close(src, i, o, c):
    depth = 0
    while i < len(src):
        if src[i] == o:
            depth += 1
        elif src[i] == c:
            depth -= 1
            if depth == 0:
                return i
        elif src[i] == '"':
            i += 1
            while src[i] != '"':
                i += 2 if src[i] == '\\' else 1
        i += 1
    raise ExtractError('unbalanced')


def decision_site(body, what, own, refs, set_var):
    """the `if(<lookups>) { mangle … } [else { … }] <hoisted statements>` of one loop of names_generator:
    (lookups, reserved sets handed to the mangling loop, inserted names in the mangled branch, in the plain branch)"""
    m = None
    for mm in re.finditer(r'\bif\s*\(', body):
        j = match_close(body, mm.end() - 1, '(', ')')
        cond = body[mm.end():j]
        if '.count(' in cond and '"' not in cond:
            m = (mm, j, cond)
            break
    if m is None:
        raise ExtractError('%s: decision `if` not found' % what)
    mm, j, cond = m
    k = body.index('{', j)
    ke = match_close(body, k, '{', '}')
    then = body[k + 1:ke]
    rest = body[ke + 1:].lstrip()
    els = ''
    if rest.startswith('else'):
        k2 = rest.index('{')
        k2e = match_close(rest, k2, '{', '}')
        els = rest[k2 + 1:k2e]
        rest = rest[k2e + 1:]
    # statements after the decision, up to the end of the enclosing block
    depth = 0
    for idx, ch in enumerate(rest):
        if ch == '{':
            depth += 1
        elif ch == '}':
            if depth == 0:
                rest = rest[:idx]
                break
            depth -= 1
    before = body[:mm.start()]

    def ref(arg, branch):
        a = squeeze(arg)
        for pat, r in refs:
            if re.fullmatch(pat, a):
                if r == 'chosen':
                    return 'mangledName' if branch == 'mangled' else 'own'
                if r == 'chosenEntry':
                    return 'mangledEntry' if branch == 'mangled' else 'ownEntry'
                return r
        raise ExtractError('%s: name `%s` not recognised' % (what, arg.strip()))
    lookups = []
    for term in cond.split('||'):
        t = squeeze(term)
        mt = re.fullmatch(r'(\w+)\.count\((.+)\)', t)
        if not mt or mt.group(1) not in SET_NAMES:
            raise ExtractError('%s: lookup `%s` not recognised' % (what, term.strip()))
        lookups.append((SET_NAMES[mt.group(1)], ref(mt.group(2), 'plain')))
    mk = re.search(r'make_mangled_(?:name|group_info)\s*\(', then)
    if not mk:
        raise ExtractError('%s: mangling call not found' % what)
    ae = match_close(then, mk.end() - 1, '(', ')')
    args = [squeeze(a) for a in then[mk.end():ae].split(',')]
    if args[0] != squeeze(own) or not args[1].endswith('location'):
        raise ExtractError('%s: mangling call arguments not recognised' % what)
    reserved = []
    for a in args[2:]:
        if a not in SET_NAMES:
            raise ExtractError('%s: reserved set `%s` not recognised' % (what, a))
        reserved.append(SET_NAMES[a])

    def inserts(text, branch):
        out = []
        for mi in re.finditer(r'(\w+)\.insert\s*\(', text):
            e = match_close(text, mi.end() - 1, '(', ')')
            if mi.group(1) != set_var:
                raise ExtractError('%s: insert into `%s`' % (what, mi.group(1)))
            out.append(ref(text[mi.end():e], branch))
        return out
    if re.search(r'\.insert\s*\(', before.split('const auto members')[-1] if 'const auto members' in before else ''):
        raise ExtractError('%s: insert before the decision' % what)
    ins_m = inserts(then, 'mangled') + inserts(rest, 'mangled')
    ins_p = inserts(els, 'plain') + inserts(rest, 'plain')
    raw = len(inserts(then, 'mangled')) + len(inserts(els, 'plain')) + len(inserts(rest, 'plain'))
    # the chosen names must be what the context records
    st = squeeze(then)
    if not re.search(r'mangled_name=(mangled_name|mangled_group_info\.group_name);', st):
        raise ExtractError('%s: `mangled_name` assignment not recognised' % what)
    return {'lookups': lookups, 'reserved': reserved, 'insMangled': ins_m, 'insPlain': ins_p, 'rawInserts': raw}


def names_generator_shape(repo, report):
    raw = open(os.path.join(repo, SRC, NG), encoding='utf-8').read()
    report['sources'][SRC + NG] = hashlib.sha256(raw.encode()).hexdigest()
    aux_ok = (fn_body(raw, 'make_mangled_name') == MANGLE_NAME_BODY and fn_body(raw, 'make_mangled_group_info') == MANGLE_GROUP_BODY
              and fn_body(raw, 'make_group_entry_name') == ENTRY_NAME_BODY)
    type_refs = [(r'actual_enc\.name', 'own'), (r'mangled_name', 'mangledName'),
                 (r'ctx_manager->get\(actual_enc\)\.mangled_name\.value_or\(actual_enc\.name\)', 'chosen')]
    msg_refs = [(r'm\.name', 'own'), (r'mangled_name', 'mangledName'),
                (r'ctx_manager->get\(m\)\.mangled_name\.value_or\(m\.name\)', 'chosen')]
    grp_refs = [(r'g\.name', 'own'), (r'entry_name', 'ownEntry'), (r'mangled_group_info\.group_name', 'mangledName'),
                (r'mangled_group_info\.entry_name', 'mangledEntry'),
                (r'(context|ctx_manager->get\(g\))\.mangled_name\.value_or\(g\.name\)', 'chosen'),
                (r'(context|ctx_manager->get\(g\))\.entry_name', 'chosenEntry')]
    gtn = fn_body(raw, 'generate_type_names')
    hce = fn_body(raw, 'handle_composite_elements')
    gmn = fn_body(raw, 'generate_message_names')
    hml = fn_body(raw, 'handle_message_level')
    if None in (gtn, hce, gmn, hml):
        raise ExtractError('names_generator: a loop function was not found')
    if 'const auto entry_name = make_group_entry_name(g.name);' not in hml:
        raise ExtractError('handle_message_level: `entry_name` is not make_group_entry_name(g.name)')
    if not re.search(r'entry_name\s*=\s*mangled_group_info\.entry_name;', hml) or \
            not re.search(r'entry_name\s*=\s*entry_name;', hml):
        raise ExtractError('handle_message_level: `entry_name` assignments not recognised')
    sites = {
        'publicTypeSite': decision_site(gtn, 'generate_type_names', 'actual_enc.name', type_refs, 'mangled_type_names'),
        'inlineTypeSite': decision_site(hce, 'handle_composite_elements', 'actual_enc.name', type_refs, 'mangled_type_names'),
        'messageSite': decision_site(gmn, 'generate_message_names', 'm.name', msg_refs, 'mangled_message_names'),
        'groupSite': decision_site(hml, 'handle_message_level', 'g.name', grp_refs, 'mangled_message_names'),
    }
    # every insert into / lookup in the two `mangled_*_names` sets is one of the statements seen at the four sites
    src = no_comments(raw)
    n_ins = len(re.findall(r'(?<![A-Za-z_])mangled_(?:type|message)_names\.insert\s*\(', src))
    n_cnt = len(re.findall(r'(?<![A-Za-z_])mangled_(?:type|message)_names\.count\s*\(', src))
    seen_ins = sum(x.pop('rawInserts') for x in sites.values())
    seen_cnt = sum(1 for x in sites.values() for a, _ in x['lookups'] if a == 'mangled')
    if n_ins != seen_ins or n_cnt != seen_cnt:
        raise ExtractError('names_generator: %d inserts / %d lookups of mangled_*_names in the file, %d / %d at the decision sites'
                           % (n_ins, n_cnt, seen_ins, seen_cnt))
    # the member-name sets and the sets of public names are collected the way the model does
    sq = squeeze(src)
    member_snippets = [
        'if((t.presence==field_presence::constant)||(t.length!=1)){return{};}elseif(t.presence==field_presence::required)'
        '{return{"min_value","max_value"};}else{return{"min_value","max_value","null_value"};}',
        'for(constauto&valid_value:e.valid_values){members.insert(valid_value.name);}returnmembers;',
        'for(constauto&choice:s.choices){members.insert(choice.name);}returnmembers;',
        'for(constauto&element:c.elements){std::visit([&members](constauto&actual_element){members.insert(actual_element.name);},'
        'element);}returnmembers;',
        'for(constauto&[name,enc]:schema->types){std::visit([this](constauto&actual_enc){non_mangled_type_names.insert('
        'actual_enc.name);},enc);}',
        'for(constauto&m:schema->messages){non_mangled_message_names.insert(m.name);}',
        'for(constauto&f:members.fields){level_names.insert(f.name);}for(constauto&g:members.groups){level_names.insert(g.name);}'
        'for(constauto&d:members.data){level_names.insert(d.name);}returnlevel_names;',
    ]
    other_ins = len(re.findall(r'\.insert\s*\(', src)) - n_ins
    other_mut = len(re.findall(r'\.(?:erase|clear|emplace|merge|extract|swap)\s*\(', src))
    members_ok = all(x in sq for x in member_snippets) and other_ins == 8 and other_mut == 0
    # the tag containers `types` / `messages`
    tags_ok = bool(re.search(r'if\(non_mangled_type_names\.count\("types"\)\) \{ const auto mangled_tag_types_name = make_mangled_name\( '
                             r'"types", schema->location, non_mangled_type_names\);', gtn)) and \
        bool(re.search(r'if\(non_mangled_message_names\.count\("messages"\)\) \{ const auto mangled_tag_messages_name = '
                       r'make_mangled_name\( "messages", schema->location, non_mangled_message_names\);', gmn))
    report['names_generator'] = {'sites': sites, 'mangle_loops_ok': aux_ok, 'tag_containers_ok': tags_ok,
                                 'member_sets_ok': members_ok}
    return sites, aux_ok and tags_ok and members_ok


def lean_site(name, site, doc):
    return ('/-- %s -/\ndef %s : InsertSite :=\n  { lookups := [%s], reserved := [%s],\n    insMangled := [%s], insPlain := [%s] }\n\n'
            % (doc, name, ', '.join('(.%s, .%s)' % (a, b) for a, b in site['lookups']),
               ', '.join('.' + a for a in site['reserved']), ', '.join('.' + a for a in site['insMangled']),
               ', '.join('.' + a for a in site['insPlain'])))

# ------------------------------------------------------------------ size_bytes parameter names (traits_generator.hpp)

UNIQUE_PARAM_LOOP = ('while(std::find( std::begin(existing_names), std::end(existing_names), desired_name) != std::end(existing_names)) '
                     '{ desired_name = fmt::format("{}_{}", desired_name, level_depth); } return desired_name;')
UNIQUE_PARAM_ONCE = ('if(std::find( std::begin(existing_names), std::end(existing_names), desired_name) != std::end(existing_names)) '
                     '{ return fmt::format("{}_{}", desired_name, level_depth); } return desired_name;')
SIZE_BYTES_BODIES = {
    'get_group_size_bytes_params': (
        'path.push_back(g.name); param_names.push_back(make_unique_param_name( fmt::format("{}_num_in_group", fmt::join(path, "_")), '
        'param_names, path.size() - 1)); param_types.push_back(get_num_in_group_underlying_type(g)); has_data_members |= '
        '!g.members.data.empty(); for(const auto& nested_group : g.members.groups) { get_group_size_bytes_params( nested_group, path, '
        'param_names, param_types, has_data_members); } path.pop_back();'),
    'make_group_size_bytes_args': (
        'auto params = fmt::format( "{}", fmt::join( std::end(param_names) - params_to_use, std::end(param_names), ", ")); '
        'if(has_data_members) { if(params.empty()) { return "0"; } else { params += ", 0"; } } return params;'),
    'make_group_size_bytes_impl': (
        'if(path.empty()) { param_names.emplace_back("num_in_group"); } else { param_names.push_back(make_unique_param_name( '
        'fmt::format("{}_num_in_group", fmt::join(path, "_")), param_names, path.size())); } '
        'param_types.push_back(get_num_in_group_underlying_type(g)); has_data_members |= !g.members.data.empty(); '
        'sum_terms.push_back(get_group_payload_size(g, param_names)); for(const auto& nested_group : g.members.groups) { '
        'path.push_back(nested_group.name); make_group_size_bytes_impl( nested_group, path, param_names, param_types, sum_terms, '
        'has_data_members); path.pop_back(); }'),
}
SIZE_BYTES_SNIPPETS = {
    'make_message_size_bytes_impl': [
        'for(const auto& g : members.groups) { const auto prev_size = param_names.size(); bool has_nested_data_members{}; '
        'get_group_size_bytes_params( g, path, param_names, param_types, has_nested_data_members); const auto params_added = '
        'param_names.size() - prev_size;',
        'make_group_size_bytes_args( param_names, params_added, has_nested_data_members)',
        'has_data_members |= has_nested_data_members; } has_data_members |= !members.data.empty();'],
    'make_message_size_bytes': [
        'std::vector<std::string> param_names; std::vector<std::string> param_types; std::vector<std::string> path; bool '
        'has_data_members{}; sum_terms.emplace_back("block_length()"); make_message_size_bytes_impl( m.members, path, param_names, '
        'param_types, sum_terms, has_data_members); if(has_data_members) { param_names.emplace_back("total_data_size");',
        'fmt::arg( "params", make_size_bytes_params(param_names, param_types))'],
    'make_group_size_bytes': [
        'bool has_data_members{}; std::vector<std::string> path; std::vector<std::string> param_names; std::vector<std::string> '
        'param_types; std::vector<std::string> sum_terms; make_group_size_bytes_impl( g, path, param_names, param_types, sum_terms, '
        'has_data_members); if(has_data_members) { param_names.emplace_back("total_data_size");',
        'fmt::arg( "params", make_size_bytes_params(param_names, param_types))'],
}


def size_bytes_shape(repo, report):
    """(uniqueParamLoops, sizeBytesShapeOk): whether `make_unique_param_name` appends `_<depth>` in a loop (fix 0030) or once,
    and whether the functions that build the `size_bytes` parameter and argument lists have exactly the text Gen/Scope.lean
    transliterates"""
    traits = open(os.path.join(repo, SRC, 'traits_generator.hpp'), encoding='utf-8').read()
    body = fn_body(traits, 'make_unique_param_name')
    if body == UNIQUE_PARAM_LOOP:
        loops = True
    elif body == UNIQUE_PARAM_ONCE:
        loops = False
    else:
        raise ExtractError('traits_generator::make_unique_param_name: body not recognised')
    bad = [f for f, b in SIZE_BYTES_BODIES.items() if fn_body(traits, f) != b]
    for f, snippets in SIZE_BYTES_SNIPPETS.items():
        b = fn_body(traits, f) or ''
        if not all(x in b for x in snippets):
            bad.append(f)
    calls = len(re.findall(r'\bmake_unique_param_name\s*\(', no_comments(traits)))
    if calls != 3:
        bad.append('make_unique_param_name: %d occurrences' % calls)
    report['size_bytes_params'] = {'unique_param_loops': loops, 'unrecognised': bad}
    return loops, not bad


# ------------------------------------------------------------------ rendering

def lean_str(s):
    return '"' + s.replace('\\', '\\\\').replace('"', '\\"') + '"'


def lean_list(xs):
    return '[' + ', '.join(lean_str(x) for x in xs) + ']'


def chunk_list(xs, per=8, ind='   '):
    lines = []
    for i in range(0, len(xs), per):
        lines.append(', '.join(lean_str(x) for x in xs[i:i + per]))
    return '[' + (',\n' + ind).join(lines) + ']'


PREAMBLE = '''-- GENERATED by /verif/extract/gen_templates.py from the fmt templates of %s on every check run. Do not edit.
namespace Sbepp.Extracted.Templates

/-- `false` when the extraction failed and the tables below are stubs -/
def templatesOk : Bool := %s

/-- the name sets of names_generator.hpp: member names of the entity (`members` / `entry_members`),
    `mangled_type_names` / `mangled_message_names`, `non_mangled_type_names` / `non_mangled_message_names` -/
inductive NameSet | members | mangled | nonMangled
  deriving DecidableEq, Repr

/-- a name at a decision site: the entity's schema name, `<name>_entry`, the mangled name the loop returned, its
    `_entry` form -/
inductive NameRef | own | ownEntry | mangledName | mangledEntry
  deriving DecidableEq, Repr

/-- one decision of names_generator.hpp: the lookups whose disjunction triggers mangling, the sets handed to the
    mangling loop as reserved, the names inserted into the `mangled_*_names` set in the mangled / in the plain
    branch (statements after the `if` are attributed to both) -/
structure InsertSite where
  lookups : List (NameSet × NameRef)
  reserved : List NameSet
  insMangled : List NameRef
  insPlain : List NameRef
  deriving DecidableEq, Repr

/-- a generated member that carries a schema name.  `own`: template parameters of the member's own template
    header; `captured`: names (template parameters, packs, parameters, locals) in whose scope the schema name is
    used unqualified -/
structure MemberTemplate where
  source : String
  kind : String
  own : List String
  captured : List String
  deriving Repr, DecidableEq

/-- a generated class / alias template (or plain class): `tparams` of its template header; `typeCaptured`: names
    in whose scope the generated type name is used unqualified; `unqualified`: identifiers its text uses
    unqualified; `bases`: injected base-class names -/
structure ClassTemplate where
  source : String
  kind : String
  tparams : List String
  typeCaptured : List String
  unqualified : List String
  bases : List String
  stdUnqualified : Bool
  deriving Repr, DecidableEq

'''


def extract(repo, outdir):
    report = {'sources': {}, 'failed': {}, 'templates': {}}
    members, classes, fixed = [], [], []
    dot_members = set()
    std_members = False
    namespaces = set()
    functions = {}
    kws, reserved = [], []
    ok = True
    try:
        all_items = {}
        for f in FILES:
            raw = open(os.path.join(repo, SRC, f), encoding='utf-8').read()
            report['sources'][SRC + f] = hashlib.sha256(raw.encode()).hexdigest()
            items = normalise_names(scan_raw_strings(raw))
            for fn, tpl, line in items:
                all_items.setdefault('%s:%s' % (f, fn), []).append((tpl, line))
        for key in ROLE:
            if key not in all_items:
                raise ExtractError('generator function `%s` (or its template) not found' % key)
        for key, lst in sorted(all_items.items()):
            role = ROLE.get(key)
            tpls = [t for t, _ in lst if not t.startswith('\x00')]
            plain = [t[1:] for t, _ in lst if t.startswith('\x00')]
            if role is None:
                # unclassified templates still contribute the unqualified `std::` scan and namespaces
                for t in tpls + plain:
                    fa = analyse(t)
                    namespaces |= fa['namespaces']
                continue
            agg = {'own': set(), 'captured': set(), 'tparams': [], 'typeCaptured': set(), 'unq': set(), 'bases': set(),
                   'std': False, 'declares': 0}
            for t in tpls + plain:
                fa = analyse(t)
                namespaces |= fa['namespaces']
                for nm, tp in fa['declares']:
                    agg['own'] |= set(tp)
                    agg['declares'] += 1
                for nm, sc in fa['uses']:
                    agg['captured'] |= set(sc)
                for nm, tp in fa['class_templates'] + fa['aliases']:
                    for x in tp:
                        if x not in agg['tparams']:
                            agg['tparams'].append(x)
                for nm, sc in fa['type_uses']:
                    agg['typeCaptured'] |= set(sc)
                agg['unq'] |= fa['unqualified']
                agg['bases'] |= fa['bases']
                agg['std'] = agg['std'] or fa['std_unqualified']
                if role[1] in ('typeAccessor', 'cursorValue'):
                    # `v.value()`: the accessor's value parameter
                    dot_members |= fa['dot_members']
                for fn in fa['functions']:
                    functions.setdefault(role[1], set()).add(fn)
            report['templates'][key] = {'role': list(role), 'lines': [l for _, l in lst],
                                        'own': sorted(agg['own']), 'captured': sorted(agg['captured']),
                                        'tparams': agg['tparams'], 'typeCaptured': sorted(agg['typeCaptured'])}
            if role[0] == 'member':
                members.append((key, role[1], sorted(agg['own']), sorted(agg['captured']), agg['std']))
            else:
                classes.append((key, role[1], agg['tparams'], sorted(agg['typeCaptured'] - set(agg['tparams'])) if False
                                else sorted(agg['typeCaptured']), sorted(agg['unq']), sorted(agg['bases']), agg['std']))
        raw = open(os.path.join(repo, SRC, 'sbe_schema_cpp_validator.hpp'), encoding='utf-8').read()
        report['sources'][SRC + 'sbe_schema_cpp_validator.hpp'] = hashlib.sha256(raw.encode()).hexdigest()
        kws, reserved = extract_keywords(raw)
        report['keywords'] = len(kws)
    except (ExtractError, OSError, ValueError, IndexError) as ex:
        ok = False
        report['failed']['templates'] = str(ex)
        members, classes = [], []
    bases = []
    try:
        raw = open(os.path.join(repo, 'sbepp/src/sbepp/sbepp.hpp'), encoding='utf-8').read()
        report['sources']['sbepp/src/sbepp/sbepp.hpp'] = hashlib.sha256(raw.encode()).hexdigest()
        hpp = strip_cxx_comments(raw)
        br = base_members(hpp, 'byte_range')
        for kind, cls in sorted(BASES.items()):
            ms = base_members(hpp, cls)
            if cls != 'byte_range' and re.search(r'class\s+(?:alignas\s*\([^)]*\)\s*)?%s\s*:\s*public\s+byte_range' % cls, hpp):
                ms = sorted(set(ms) | set(br))
            bases.append((kind, cls, ms))
        report['base_members'] = {cls: len(ms) for _, cls, ms in bases}
    except (ExtractError, OSError) as ex:
        ok = False
        report['failed']['base_members'] = str(ex)
    flags = {'stripsLeadingZeros': False, 'floatDotZero': False, 'escapesLiterals': False, 'valueRefRecordsDependency': False}
    std_macros = []
    try:
        flags = literal_rendering(repo, report)
        used_macros = set()
        for f in FILES:
            raw = open(os.path.join(repo, SRC, f), encoding='utf-8').read()
            for fn, tpl, line in scan_raw_strings(raw):
                used_macros |= set(re.findall(r'\bSBEPP_[A-Z_0-9]+(?=\s*\()', tpl))
        std_macros = macros_std_unqualified(repo, used_macros)
        report['macros_invoked_by_generated_code'] = sorted(used_macros)
    except (ExtractError, OSError, ValueError, IndexError) as ex:
        ok = False
        report['failed']['literal_rendering'] = str(ex)
    sb_loops, sb_ok = False, False
    try:
        sb_loops, sb_ok = size_bytes_shape(repo, report)
    except (ExtractError, OSError, ValueError, IndexError) as ex:
        ok = False
        report['failed']['size_bytes_params'] = str(ex)
    empty_site = {'lookups': [], 'reserved': [], 'insMangled': [], 'insPlain': []}
    ng_sites = {k: empty_site for k in ('publicTypeSite', 'inlineTypeSite', 'messageSite', 'groupSite')}
    ng_aux = False
    try:
        ng_sites, ng_aux = names_generator_shape(repo, report)
    except (ExtractError, OSError, ValueError, IndexError) as ex:
        ok = False
        report['failed']['names_generator'] = str(ex)
    obj, fun, used = platform_macros(repo)
    report['platform_macros'] = {'object_like': len(obj), 'function_like': len(fun), 'compilers': used}
    if not used:
        report['failed']['platform_macros'] = 'no compiler could preprocess sbepp.hpp'
    text = PREAMBLE % (', '.join(FILES), 'true' if ok else 'false')
    text += '/-- members carrying a schema name, by generator function -/\ndef memberTemplates : List MemberTemplate :=\n  ['
    text += ',\n   '.join('{ source := %s, kind := %s, own := %s, captured := %s }' % (lean_str(k), lean_str(kind), lean_list(own), lean_list(cap))
                          for (k, kind, own, cap, _) in members) + ']\n\n'
    text += '/-- generated class / alias templates and classes, by generator function -/\ndef classTemplates : List ClassTemplate :=\n  ['
    text += ',\n   '.join('{ source := %s, kind := %s, tparams := %s, typeCaptured := %s,\n     unqualified := %s,\n     bases := %s, stdUnqualified := %s }'
                          % (lean_str(k), lean_str(kind), lean_list(tp), lean_list(tc), lean_list(unq), lean_list(bases),
                             'true' if std else 'false')
                          for (k, kind, tp, tc, unq, bases, std) in classes) + ']\n\n'
    text += '/-- member templates that use namespace `std` unqualified (`std::forward`) -/\ndef memberStdUnqualified : List String :=\n  %s\n\n' % \
        lean_list(sorted(set(kind for (_, kind, _, _, std) in members if std)))
    text += '/-- members that generated value accessors call with `.` on their value parameter (`v.value()`) -/\ndef dotMembers : List String := %s\n\n' % lean_list(sorted(dot_members))
    text += '/-- namespaces opened by the file templates -/\ndef fixedNamespaces : List String := %s\n\n' % lean_list(sorted(namespaces))
    text += '/-- free functions generated in the namespace of a type, by class kind -/\ndef namespaceFunctions : List (String × List String) :=\n  [%s]\n\n' % \
        ', '.join('(%s, %s)' % (lean_str(k), lean_list(sorted(v))) for k, v in sorted(functions.items())
                  if k in ('enumVisit',))
    text += ('/-- names declared in the runtime base class of a generated class (sbepp.hpp), by class kind: a derived '
             'class of the same name\n    hides them -/\ndef baseMembers : List (String × String × List String) :=\n  [%s]\n\n'
             % ',\n   '.join('(%s, %s, %s)' % (lean_str(k), lean_str(c), lean_list(ms)) for k, c, ms in bases))
    text += ('/-- `utils::to_integer_literal` pastes `strip_leading_zeros(value)` (body as transliterated in Gen/Literals.lean) -/\n'
             'def stripsLeadingZeros : Bool := %s\n\n'
             '/-- `utils::numeric_literal_to_value` appends `.0` to float/double values without `.`, `e`, `E` -/\n'
             'def floatDotZero : Bool := %s\n\n'
             '/-- every free-text site (description, semanticType, characterEncoding, package, semanticVersion, string and\n'
             '    character constants, character enumerators) pastes `utils::escape_literal(text)` (body as transliterated) -/\n'
             'def escapesLiterals : Bool := %s\n\n'
             '/-- `messages_compiler::value_ref_to_enumerator` records the enum as a dependency of the message file -/\n'
             'def valueRefRecordsDependency : Bool := %s\n\n'
             '/-- macros of sbepp.hpp that generated code invokes and whose replacement text says `std::` unqualified -/\n'
             'def macrosStdUnqualified : List String := %s\n\n'
             % tuple(['true' if flags[k] else 'false' for k in ('stripsLeadingZeros', 'floatDotZero', 'escapesLiterals',
                                                                'valueRefRecordsDependency')] + [lean_list(std_macros)]))
    text += ('/-- `traits_generator::make_unique_param_name` appends `_<depth>` until the name is not among the existing ones '
             '(`while`);\n    `false`: once (`if`) -/\ndef uniqueParamLoops : Bool := %s\n\n'
             '/-- `get_group_size_bytes_params`, `make_group_size_bytes_impl`, `make_group_size_bytes_args` and the parts of\n'
             '    `make_message_size_bytes(_impl)` / `make_group_size_bytes` that build the parameter and argument lists have exactly '
             'the\n    text Gen/Scope.lean transliterates -/\ndef sizeBytesShapeOk : Bool := %s\n\n'
             % ('true' if sb_loops else 'false', 'true' if sb_ok else 'false'))
    text += lean_site('publicTypeSite', ng_sites['publicTypeSite'], 'names_generator::generate_type_names, loop over the public types')
    text += lean_site('inlineTypeSite', ng_sites['inlineTypeSite'], 'names_generator::handle_composite_elements')
    text += lean_site('messageSite', ng_sites['messageSite'], 'names_generator::generate_message_names, loop over the messages')
    text += lean_site('groupSite', ng_sites['groupSite'], 'names_generator::handle_message_level')
    text += ('/-- `make_mangled_name`, `make_mangled_group_info`, `make_group_entry_name`, the two tag-container decisions '
             '(`types`, `messages`),\n    the four `get_member_names` overloads and the two `collect_non_mangled_*_names` loops '
             'have exactly the text\n    Gen/Scope.lean transliterates, and the file holds no other insert into / removal from a '
             'name set -/\n'
             'def mangleLoopsOk : Bool := %s\n\n' % ('true' if ng_aux else 'false'))
    text += '/-- `is_cpp_keyword`, sbe_schema_cpp_validator.hpp (names equal to one of these are rejected) -/\ndef cppKeywords : List String :=\n  %s\n\n' % chunk_list(kws)
    text += '/-- `is_reserved_cpp_namespace` (rejected as schema name only) -/\ndef reservedNamespaces : List String := %s\n\n' % lean_list(reserved)
    text += '/-- object-like macros (not reserved identifiers, not self-referential) defined after `#include <sbepp/sbepp.hpp>`\n    with %s -/\ndef objectMacros : List String :=\n  %s\n\n' % (', '.join(used) or 'no compiler', chunk_list(obj))
    text += '/-- function-like macros, same conditions -/\ndef functionMacros : List String :=\n  %s\n\nend Sbepp.Extracted.Templates\n' % chunk_list(fun)
    write_if_changed(os.path.join(outdir, 'Templates.lean'), text)
    return report
