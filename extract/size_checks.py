"""Extract every SBEPP_SIZE_CHECK / SBEPP_ASSERT site of sbepp.hpp (and the
empty-entry cursor constructor that sbeppc generates) into
`Sbepp/Extracted/SizeChecks.lean`.

For each function whose body contains one of the two macros:
  * class::function (+ parameter names, to tell overloads apart) and line,
  * every check in source order: the four argument expressions of a size check
    / the expression of an assert, as `CExpr` where the expression is inside the
    translatable subset (after a fixed alias table that maps the view/iterator
    member calls to typed variables), otherwise as normalised text,
  * the macro-expanded condition of each size check (textual expansion of the
    `#define SBEPP_SIZE_CHECK` found in the same file) as one `CExpr`,
  * whether evaluating the check's own arguments already reads memory
    (`argsRead`: calls to `size()`, `sbepp::size_bytes(..)`, `begin()`, ...),
  * the first memory access statement of the body and
    `checkBeforeAccess : Bool` (every check textually precedes it).
In addition: the macro itself over the canonical variables
begin/end/offset/size (`sizeCheckMacro`) and the table of view constructions
with their `end` argument (`endArgs`, for `end_propagates`).

Interface: `extract(repo, outdir) -> report` like kernels.py; on failure of a
site the Lean file gets a stub (no checks, `failed := true`) and the site is
listed in `report['failed']`.
"""
import hashlib
import os
import re

from . import cxx
from .kernels import write_if_changed

HPP = 'sbepp/src/sbepp/sbepp.hpp'
GEN = 'sbeppc/src/sbepp/sbeppc/messages_compiler.hpp'

# sites the hand model (Rt/Guards.lean) refers to by name: a stub is emitted if one is missing
REQUIRED = [
    'detail_get_value__view_offset', 'detail_set_value__view_offset_value',
    'detail_get_static_field_view__view_offset',
    'message_base_call__get_header_tag', 'flat_group_base_call__get_header_tag',
    'nested_group_base_call__get_header_tag',
    'forward_iterator_inc', 'random_access_iterator_inc',
    'flat_group_base_index__pos',
    'cursor_get_value__view_offset_absolute_offset', 'cursor_set_value__view_offset_absolute_offset_value',
    'cursor_get_last_value__view_offset_absolute_offset',
    'cursor_get_static_field_view__view_offset_absolute_offset',
    'cursor_get_group_view__view_getter', 'cursor_get_data_view__view_getter',
    'init_cursor_wrapper_get_value__view_size_t_absolute_offset',
    'init_dont_move_cursor_wrapper_get_value__view_offset_absolute_offset',
    'dont_move_cursor_wrapper_get_value__view_offset_absolute_offset',
    'skip_cursor_wrapper_get_value__view_offset_absolute_offset',
    'static_array_ref_data', 'static_array_ref_index__pos', 'static_array_ref_assign_range__r',
    'static_array_ref_assign__first_last', 'static_array_ref_assign__count_value',
    'dynamic_array_ref_data_checked', 'dynamic_array_ref_data_unchecked', 'dynamic_array_ref_index__pos',
    'dynamic_array_ref_resize__count_default_init_t', 'dynamic_array_ref_erase__first_last',
    'dynamic_array_ref_erase__pos', 'dynamic_array_ref_insert__pos_count_value',
    'dynamic_array_ref_assign__ilist', 'dynamic_array_ref_front', 'dynamic_array_ref_back',
    'dynamic_array_ref_pop_back',
    'generated_entry_cursor_ctor',
    'cursor_get_last_static_field_view__view_offset_absolute_offset',
    'init_cursor_wrapper_get_last_value__view_size_t_absolute_offset',
    'init_cursor_wrapper_get_static_field_view__view_size_t_absolute_offset',
    'init_cursor_wrapper_get_last_static_field_view__view_size_t_absolute_offset',
    'init_dont_move_cursor_wrapper_get_static_field_view__view_offset_absolute_offset',
    'dont_move_cursor_wrapper_get_last_value__view_offset_absolute_offset',
    'dont_move_cursor_wrapper_get_static_field_view__view_offset_absolute_offset',
    'dont_move_cursor_wrapper_get_last_static_field_view__view_offset_absolute_offset',
    'dont_move_cursor_wrapper_get_group_view__view_getter', 'dont_move_cursor_wrapper_get_data_view__view_getter',
    'skip_cursor_wrapper_get_last_value__view_offset_absolute_offset',
    'skip_cursor_wrapper_get_static_field_view__view_offset_absolute_offset',
    'skip_cursor_wrapper_get_last_static_field_view__view_offset_absolute_offset',
    'skip_cursor_wrapper_get_group_view__view_getter', 'skip_cursor_wrapper_get_data_view__view_getter',
]

ACCESS = re.compile(
    r'get_primitive<|set_primitive<|set_primitive\(|std::copy|std::ranges::copy|std::fill|memcpy|std::memchr'
    r'|(?<![\w)\]])\*\s*\(?\s*(?:data\(\)|pos|eos_pos|out)\b[^;=]*(?:=(?!=)|;)'      # *pos = v; *data(); *(data()+pos)
    r'|operator\[\]\([^)]*\)\s*=(?!=)|\(\*this\)\[[^\]]*\]\s*=(?!=)'
    r'|data\(\)\[|first\[')

ARG_READS = re.compile(r'\bsize\(\)|sbepp::size_bytes\(|\bbegin\(\)|\bend\(\)|\bempty\(\)|getter\(\)')

# ordered alias table: regex on whitespace-normalised text -> variable
ALIASES = [
    (r'getter\(\)\((?:::sbepp::)?(?:detail::)?addressof_tag\{\}\)', 'getter_addr'),
    (r'(?:view|\(\*this\))\((?:::sbepp::)?(?:detail::)?addressof_tag\{\}\)', 'begin'),
    (r'(?:view|\(\*this\))\((?:::sbepp::)?(?:detail::)?end_ptr_tag\{\}\)', 'end'),
    (r'cursor->pointer\(\)', 'cursor_ptr'),
    (r'sizeof\((\w+)\)', r'sizeof_\1'),
    (r'sbepp::size_bytes\(header\)', 'size_bytes_header'),
    (r'sbepp::size_bytes\(operator\*\(\)\)', 'size_bytes_entry'),
    (r'ilist\.size\(\)', 'ilist_size'),
    (r'(?<![\w.])(?<!->)size\(\)', 'size'),
    (r'(?<![\w.])(?<!->)begin\(\)', 'it_begin'),
    (r'(?<![\w.])(?<!->)end\(\)', 'it_end'),
    (r'(?<![\w.])(?<!->)empty\(\)', 'empty'),
    (r'eos_null::none', 'eos_null_none'),
]

TYPES = {'size_type': '.u64', 'std::size_t': '.u64', 'bool': '.bool'}


def alias(text):
    t = cxx.normalise_keep_words(text)
    for pat, rep in ALIASES:
        t = re.sub(pat, ' %s ' % rep, t)
    return t


def lean_str(s):
    return '"' + s.replace('\\', '\\\\').replace('"', '\\"').replace('\n', ' ') + '"'


def to_arg(text):
    """`Arg.expr <CExpr>` if translatable else `Arg.text "<normalised>"`"""
    norm = cxx.normalise_keep_words(text)
    try:
        ctx = cxx.Ctx(types=TYPES)
        e = cxx.parse_expr(alias(text), ctx)
        return '(.expr %s)' % e, True
    except (cxx.ExtractError, ValueError, AssertionError, KeyError, IndexError):
        return '(.text %s)' % lean_str(norm), False


def to_expr_opt(text):
    try:
        ctx = cxx.Ctx(types=TYPES)
        return '(some %s)' % cxx.parse_expr(alias(text), ctx)
    except (cxx.ExtractError, ValueError, AssertionError, KeyError, IndexError):
        return 'none'


# ------------------------------------------------------------------ brace tree

class Block:
    __slots__ = ('start', 'end', 'header', 'kind', 'name', 'parent', 'hstart')

    def __init__(self, start, parent):
        self.start = start
        self.end = None
        self.header = ''
        self.kind = 'other'
        self.name = ''
        self.parent = parent
        self.hstart = start


def scan_blocks(src):
    """all `{...}` blocks with the text between the previous `;`/`{`/`}` and the
    opening brace as header"""
    blocks = []
    stack = []
    last_sep = 0
    i, n = 0, len(src)
    while i < n:
        c = src[i]
        if c in '"\'':
            q = c
            i += 1
            while i < n and src[i] != q:
                if src[i] == '\\':
                    i += 1
                i += 1
        elif c == '#':
            # preprocessor line (with continuations): not part of any header
            j = i
            while True:
                k = src.find('\n', j)
                if k < 0:
                    k = n
                    break
                if src[k - 1] == '\\':
                    j = k + 1
                    continue
                break
            i = k
            last_sep = i
            continue
        elif c == '{':
            b = Block(i, stack[-1] if stack else None)
            b.header = src[last_sep:i]
            b.hstart = last_sep
            stack.append(b)
            blocks.append(b)
            last_sep = i + 1
        elif c == '}':
            if stack:
                b = stack.pop()
                b.end = i
            last_sep = i + 1
        elif c == ';':
            # `;` inside parentheses (for-loops) does not end a header: good enough here because
            # headers of interest never contain `for(`
            last_sep = i + 1
        i += 1
    return blocks


CLASS_RE = re.compile(r'\b(class|struct)\s+([A-Za-z_]\w*)\b[^;(]*$', re.S)
NS_RE = re.compile(r'\bnamespace\b(?:\s+([\w:]+))?\s*$', re.S)


def classify(blocks, src):
    for b in blocks:
        h = b.header.strip()
        m = NS_RE.search(h)
        if m and '(' not in h:
            b.kind, b.name = 'namespace', m.group(1) or ''
            continue
        # strip a leading template<...>
        m = CLASS_RE.search(strip_template(h))
        if m and not re.search(r'\benum\b', h):
            b.kind, b.name = 'class', m.group(2)
            continue
        if re.search(r'\benum\b', h):
            b.kind = 'enum'
            continue
        par = b.parent
        if (par is None or par.kind in ('namespace', 'class')):
            if '(' in h:
                b.kind = 'function'
            elif h == '' or re.fullmatch(r'[\s,]*', h):
                # constructor body after a brace-initialiser list: look left across sibling blocks
                b.kind = 'function-tail'
    # resolve function-tail headers
    by_parent = {}
    for b in blocks:
        by_parent.setdefault(id(b.parent), []).append(b)
    for b in blocks:
        if b.kind == 'function-tail':
            sibs = by_parent[id(b.parent)]
            k = sibs.index(b)
            hs = b.hstart
            while k > 0:
                k -= 1
                s = sibs[k]
                if s.end is None or src[s.end + 1:hs].strip(' \n\t,') != '':
                    break
                hs = s.hstart
                if '(' in s.header:
                    b.header = src[s.hstart:b.start]
                    b.hstart = s.hstart
                    b.kind = 'function'
                    break
            if b.kind != 'function':
                b.kind = 'other'


def strip_template(h):
    h = h.strip()
    while h.startswith('template'):
        i = h.find('<')
        if i < 0:
            break
        depth = 0
        j = i
        while j < len(h):
            if h[j] == '<':
                depth += 1
            elif h[j] == '>':
                depth -= 1
                if depth == 0:
                    break
            j += 1
        h = h[j + 1:].strip()
    return h


OPNAMES = {'()': 'call', '[]': 'index', '++': 'inc', '--': 'dec', '+=': 'add_assign', '-=': 'sub_assign',
           '+': 'plus', '-': 'minus', '*': 'deref', '->': 'arrow', '==': 'eq', '!=': 'ne', '<': 'lt', '<=': 'le',
           '>': 'gt', '>=': 'ge', '=': 'assign'}


def parse_signature(header):
    """-> (name, ident_name, [param idents], normalised parameter text)"""
    h = strip_template(header)
    h = re.sub(r'\s+', ' ', h)
    m = re.search(r'operator\s*(\(\)|\[\]|\+\+|--|\+=|-=|->|==|!=|<=|>=|[-+*<>=])\s*\(', h)
    if m:
        name = 'operator' + m.group(1)
        ident = OPNAMES[m.group(1)]
        p0 = m.end() - 1
    else:
        # first top-level `(` whose preceding token is an identifier (skip `noexcept(`, attribute macros
        # like SBEPP_CPP20_CONSTEXPR have no parens)
        p0 = None
        for mm in re.finditer(r'([A-Za-z_~]\w*)\s*\(', h):
            if mm.group(1) in ('noexcept', 'decltype', 'alignas', 'sizeof'):
                continue
            p0 = mm.end() - 1
            name = mm.group(1)
            ident = name
            break
        if p0 is None:
            raise cxx.ExtractError('no function name in %r' % h[:80])
    p1 = cxx.match_brace(h, p0, '(', ')')
    params_txt = h[p0 + 1:p1].strip()
    params = []
    if params_txt and params_txt != 'void':
        for p in cxx.split_args(params_txt):
            p = re.sub(r'=.*$', '', p).strip()           # default argument
            p = re.sub(r'/\*.*?\*/', '', p).strip()
            toks = re.findall(r'[A-Za-z_]\w*', p)
            toks = [t for t in toks if t not in ('const', 'typename', 'std', 'sbepp', 'detail', 'noexcept')]
            if not toks:
                continue
            params.append(toks[-1])
    return name, ident, params, cxx.normalise_keep_words(params_txt)


def macro_calls(body, base):
    """[(kind, args_text, pos)] in source order"""
    out = []
    for m in re.finditer(r'\b(SBEPP_SIZE_CHECK|SBEPP_ASSERT)\s*\(', body):
        i = m.end() - 1
        j = cxx.match_brace(body, i, '(', ')')
        out.append((m.group(1), body[i + 1:j], base + m.start()))
    return out


def enclosing_conditions(body, pos):
    """control statements (`if(..)`, `else`, `for(..)`, `while(..)`) whose block encloses body[pos], outermost
    first, as normalised text.  Lambda bodies and initialiser braces are not control statements."""
    out = []
    for b in scan_blocks(body):
        if b.end is None or not (b.start < pos < b.end):
            continue
        h = cxx.normalise_keep_words(b.header)
        m = re.match(r'^(?:else\s*)?(if|for|while|switch)\s*\(', h)
        if m:
            out.append((b.start, h))
        elif re.match(r'^else$', h):
            out.append((b.start, 'else'))
    return [h for _, h in sorted(out)]


def cond_arg(conds):
    """Lean `Option Arg`: none = unconditional; a single `if(C)` whose condition translates = `.expr C`;
    anything else = `.text`"""
    if not conds:
        return 'none'
    if len(conds) == 1:
        m = re.match(r'^if\s*\((.*)\)$', conds[0], re.S)
        if m:
            return '(some %s)' % to_arg(m.group(1))[0]
    return '(some (.text %s))' % lean_str(';'.join(conds))


def strip_msg(expr):
    """drop the `&& "message"` idiom and redundant outer parentheses"""
    e = re.sub(r'&&\s*"[^"]*"\s*$', '', expr.strip()).strip()
    while e.startswith('(') and cxx.match_brace(e, 0, '(', ')') == len(e) - 1:
        e = e[1:-1].strip()
    return e


END_CTOR = re.compile(r'(?:return\s*|\b[A-Za-z_]\w*\s+[A-Za-z_]\w*\s*|\biterator\s*)\{([^{};]*(?:\{\}[^{};]*)*)\}')


def end_args(body):
    """view constructions `{first, second, ...}` with at least two arguments: the second one is the
    end pointer handed to the derived view"""
    out = []
    for m in END_CTOR.finditer(body):
        args = cxx.split_args(m.group(1))
        if len(args) >= 2:
            norm = [cxx.normalise_keep_words(a) for a in args]
            # the end argument: the one that mentions end / nullptr (iterators carry it last)
            cands = [a for a in norm if re.search(r'end_ptr_tag|\bend\b|\bend_ptr\b', a)]
            if cands:
                out.append(cands[0])
    return out


def site_lean(ident, cls, fn, params, line, checks, first_access, cba, failed=None):
    cs = []
    for c in checks:
        if c['kind'] == 'size':
            cs.append('.size %s %s %s %s %s %s %s' % (c['b'], c['e'], c['o'], c['s'], c['expanded'],
                                                     'true' if c['args_read'] else 'false', c['cond']))
        else:
            cs.append('.assert %s %s %s' % (c['x'], 'true' if c['args_read'] else 'false', c['cond']))
    doc = '%s::%s(%s), %s:%d' % (cls, fn, params, HPP if cls != 'generated' else GEN, line)
    if failed:
        doc = 'EXTRACTION FAILED: %s ' % failed.replace('-/', '- /') + doc
    return ('/-- %s -/\ndef %s : Site :=\n  { cls := %s, fn := %s, params := %s, line := %d,\n'
            '    checks := [%s],\n    firstAccess := %s, checkBeforeAccess := %s, failed := %s }\n' % (
                doc.replace('-/', '- /'), ident, lean_str(cls), lean_str(fn), lean_str(params), line,
                ',\n      '.join(cs), ('some ' + lean_str(first_access)) if first_access else 'none',
                'true' if cba else 'false', 'true' if failed else 'false'))


PRELUDE = '''-- GENERATED by /verif/extract/size_checks.py from %s (+ %s) on every check run. Do not edit.
import Sbepp.Base.CExpr

namespace Sbepp.Extracted.SizeChecks
open Sbepp

/-- an argument of a check: translated, or kept as normalised source text -/
inductive Arg
  | expr (e : CExpr)
  | text (s : String)
  deriving Repr, Inhabited

/-- `size b e o s expanded argsRead cond`: the four arguments of an `SBEPP_SIZE_CHECK`, the textual macro
    expansion as one expression (if translatable), whether evaluating the arguments reads memory, and
    the control statement the check is nested in (`none`: executed unconditionally; `some (.expr C)`:
    inside a single `if(C)`; `some (.text ..)`: anything else);
    `assert x argsRead cond`: an `SBEPP_ASSERT`. -/
inductive Check
  | size (b e o s : Arg) (expanded : Option CExpr) (argsRead : Bool) (cond : Option Arg)
  | assert (x : Arg) (argsRead : Bool) (cond : Option Arg)
  deriving Repr, Inhabited

structure Site where
  cls : String
  fn : String
  params : String
  line : Nat
  checks : List Check
  /-- first statement of the body that touches buffer memory directly -/
  firstAccess : Option String
  /-- every check textually precedes the first access (vacuously true without one) -/
  checkBeforeAccess : Bool
  failed : Bool := false
  deriving Repr, Inhabited

def Arg.expr? : Arg → Option CExpr
  | .expr e => some e
  | .text _ => none

/-- the `k`-th check of a site as (begin, end, offset, size, expanded) expressions -/
def Site.sizeCheck? (s : Site) (k : Nat) : Option (CExpr × CExpr × CExpr × CExpr × CExpr) :=
  match s.checks[k]? with
  | some (.size b e o sz (some x) _ _) =>
    match b.expr?, e.expr?, o.expr?, sz.expr? with
    | some b, some e, some o, some sz => some (b, e, o, sz, x)
    | _, _, _, _ => none
  | _ => none

/-- under which condition check `k` is executed: `none` = no such check, `some none` = always -/
def Site.checkCond? (s : Site) (k : Nat) : Option (Option Arg) :=
  match s.checks[k]? with
  | some (.size _ _ _ _ _ _ c) => some c
  | some (.assert _ _ c) => some c
  | none => none

def Site.assert? (s : Site) (k : Nat) : Option CExpr :=
  match s.checks[k]? with
  | some (.assert x _ _) => x.expr?
  | _ => none

'''


def extract(repo, outdir):
    path = os.path.join(repo, HPP)
    raw = open(path, encoding='utf-8').read()
    src = cxx.strip_comments(raw)
    report = {'source': HPP, 'sha256': hashlib.sha256(raw.encode()).hexdigest(), 'sites': {}, 'failed': {},
              'end_args': {}}
    macros = {}
    macro_lean = '.lit .bool 0'
    try:
        macros['SBEPP_SIZE_CHECK'] = cxx.parse_define(src, 'SBEPP_SIZE_CHECK')
        report['SBEPP_SIZE_CHECK'] = macros['SBEPP_SIZE_CHECK'][1]
        params, body = macros['SBEPP_SIZE_CHECK']
        if params != ['begin', 'end', 'offset', 'size']:
            raise cxx.ExtractError('unexpected macro parameters %r' % params)
        m = re.match(r'SBEPP_ASSERT\s*\((.*)\)\s*$', body.strip(), re.S)
        if not m:
            raise cxx.ExtractError('SBEPP_SIZE_CHECK does not expand to one SBEPP_ASSERT')
        macro_lean = cxx.parse_expr(m.group(1), cxx.Ctx(types=TYPES))
    except cxx.ExtractError as e:
        report['failed']['SBEPP_SIZE_CHECK'] = str(e)

    defs = []
    idents = []
    end_tbl = []

    def add_site(cls, header, body, body_pos, line, whole_src, forced_ident=None):
        fn, iname, params, ptxt = parse_signature(header)
        ident = forced_ident or re.sub(r'\W', '_', '%s_%s%s' % (cls, iname, ('__' + '_'.join(params)) if params else ''))
        k = 2
        base_ident = ident
        while ident in idents:
            ident = '%s_%d' % (base_ident, k)
            k += 1
        calls = macro_calls(body, 0)
        acc = ACCESS.search(body)
        first_access = None
        acc_pos = None
        if acc:
            acc_pos = acc.start()
            # the whole statement
            s0 = max(body.rfind(';', 0, acc_pos), body.rfind('{', 0, acc_pos), body.rfind('}', 0, acc_pos)) + 1
            s1 = body.find(';', acc_pos)
            first_access = cxx.normalise_keep_words(body[s0:s1 if s1 >= 0 else len(body)])[:200]
        checks = []
        ok_all = True
        for kind, args, pos in calls:
            if kind == 'SBEPP_SIZE_CHECK':
                a = cxx.split_args(args)
                if len(a) != 4:
                    raise cxx.ExtractError('%s: SBEPP_SIZE_CHECK with %d arguments' % (ident, len(a)))
                conv = [to_arg(x) for x in a]
                expanded = 'none'
                if 'SBEPP_SIZE_CHECK' in macros:
                    ex = cxx.expand_macros('SBEPP_SIZE_CHECK(%s)' % args, macros)
                    mm = re.match(r'\s*SBEPP_ASSERT\s*\((.*)\)\s*$', ex, re.S)
                    if mm:
                        expanded = to_expr_opt(mm.group(1))
                checks.append({'kind': 'size', 'b': conv[0][0], 'e': conv[1][0], 'o': conv[2][0], 's': conv[3][0],
                               'expanded': expanded, 'args_read': bool(ARG_READS.search(cxx.normalise_keep_words(args))),
                               'pos': pos, 'text': [cxx.normalise_keep_words(x) for x in a],
                               'conds': enclosing_conditions(body, pos),
                               'cond': cond_arg(enclosing_conditions(body, pos))})
            else:
                x = strip_msg(args)
                checks.append({'kind': 'assert', 'x': to_arg(x)[0],
                               'args_read': bool(ARG_READS.search(cxx.normalise_keep_words(x))), 'pos': pos,
                               'text': [cxx.normalise_keep_words(x)],
                               'conds': enclosing_conditions(body, pos),
                               'cond': cond_arg(enclosing_conditions(body, pos))})
        cba = acc_pos is None or all(c['pos'] < acc_pos for c in checks)
        idents.append(ident)
        defs.append(site_lean(ident, cls, fn, ptxt, line, checks, first_access, cba))
        report['sites'][ident] = {'cls': cls, 'fn': fn, 'params': ptxt, 'line': line,
                                  'checks': [{'kind': c['kind'], 'args': c['text'], 'args_read': c['args_read'],
                                              'conditions': c['conds']} for c in checks],
                                  'first_access': first_access, 'check_before_access': cba}
        return ident

    try:
        blocks = scan_blocks(src)
        classify(blocks, src)
        for b in blocks:
            if b.kind != 'function' or b.end is None:
                continue
            body = src[b.start + 1:b.end]
            has_macro = re.search(r'\bSBEPP_(SIZE_CHECK|ASSERT)\s*\(', body)
            par = b.parent
            cls = par.name if par is not None and par.kind == 'class' else (
                par.name.split('::')[-1] if par is not None and par.name else 'sbepp')
            line = src.count('\n', 0, b.hstart + len(b.header) - len(b.header.lstrip())) + 1
            try:
                eas = end_args(body)
                if eas:
                    fn = parse_signature(b.header)[0]
                    for ea in eas:
                        end_tbl.append((cls, fn, ea))
            except (cxx.ExtractError, ValueError):
                pass
            if not has_macro:
                continue
            try:
                add_site(cls, b.header, body, b.start + 1, line, src)
            except (cxx.ExtractError, ValueError, AssertionError, KeyError, IndexError) as ex:
                report['failed']['%s@%d' % (cls, line)] = str(ex)
    except (cxx.ExtractError, ValueError, AssertionError, KeyError, IndexError) as ex:
        report['failed']['scan'] = str(ex)

    # the generated empty-entry cursor constructor (a fmt template inside sbeppc)
    try:
        gsrc = cxx.strip_comments(open(os.path.join(repo, GEN), encoding='utf-8').read())
        s, e = None, None
        m = re.search(r'make_entry_cursor_constructor\s*\(', gsrc)
        if not m:
            raise cxx.ExtractError('make_entry_cursor_constructor not found')
        m2 = re.compile(r'R"\((.*?)\)"', re.S).search(gsrc, m.end())
        if not m2:
            raise cxx.ExtractError('raw string template not found')
        tpl = m2.group(1).replace('{{', '{').replace('}}', '}')
        gline = gsrc.count('\n', 0, m2.start()) + 1
        mc = re.search(r'\bSBEPP_SIZE_CHECK\s*\(', tpl)
        if not mc:
            raise cxx.ExtractError('no SBEPP_SIZE_CHECK in the entry cursor constructor template')
        # body = the constructor's compound statement (last top-level block of the template)
        tb = scan_blocks(tpl)
        bodyb = [b for b in tb if b.parent is None and b.end is not None and b.start < mc.start() < b.end]
        if not bodyb:
            raise cxx.ExtractError('constructor body not found')
        body = tpl[bodyb[0].start + 1:bodyb[0].end]
        hdr = 'entry(::sbepp::cursor<Byte2>& c, Byte* end_ptr, BlockLengthType block_length)'
        # memory effect of the body: only the cursor moves; record the statement after the check
        add_site('generated', hdr, body, 0, gline, tpl, forced_ident='generated_entry_cursor_ctor')
        for ea in end_args(tpl):
            end_tbl.append(('generated', 'entry', ea))
    except (OSError, cxx.ExtractError, ValueError, AssertionError, KeyError, IndexError) as ex:
        report['failed']['generated_entry_cursor_ctor'] = str(ex)

    for r in REQUIRED:
        if r not in idents:
            report['failed'].setdefault(r, 'required site not found (function renamed, moved or no longer checked)')
            defs.append(site_lean(r, '?', '?', '', 0, [], None, False, failed=report['failed'][r]))
            idents.append(r)

    report['end_args'] = sorted(set('%s::%s %s' % t for t in end_tbl))
    text = (PRELUDE % (HPP, GEN)
            + '/-- `SBEPP_SIZE_CHECK(begin, end, offset, size)` over its own parameter names:\n%s -/\n'
              'def sizeCheckMacro : CExpr :=\n  %s\n\n' % (
                  str(report.get('SBEPP_SIZE_CHECK', 'EXTRACTION FAILED')).replace('-/', '- /'), macro_lean)
            + '\n'.join(defs)
            + '\n/-- every site, in source order -/\ndef sites : List Site :=\n  [%s]\n\n' % ',\n   '.join(idents)
            + '/-- (class, function, end argument) of every construction of a derived view / iterator -/\n'
              'def endArgs : List (String × String × String) :=\n  [%s]\n\n' % ',\n   '.join(
                  '(%s, %s, %s)' % (lean_str(a), lean_str(b), lean_str(c)) for a, b, c in end_tbl)
            + 'end Sbepp.Extracted.SizeChecks\n')
    write_if_changed(os.path.join(outdir, 'SizeChecks.lean'), text)
    return report
