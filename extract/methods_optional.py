"""Translator: member functions of `sbepp::detail::required_base` and
`sbepp::detail::optional_base` (sbepp.hpp) -> Lean definitions over the
vocabulary of the hand model `Sbepp.Rt.Scalar` (lean/Sbepp/Rt/Optional.lean).

Output: lean/Sbepp/Extracted/OptionalMethods.lean (module
`Sbepp.Extracted.OptionalMethods`, namespaces
`Sbepp.Extracted.Optional.RequiredBase` / `.OptionalBase`) + a report (dict).

Pipeline, run on the text of sbepp.hpp on every check:

  1. comments are stripped, the class is located (`template<typename T,
     typename Derived> class alignas(T) NAME`), the class body is preprocessed
     once per comparison configuration (`SBEPP_HAS_THREE_WAY_COMPARISON` = 0 / 1,
     `SBEPP_DOXYGEN` undefined) and split, on tokens, into members: `using`
     aliases, data members with their default member initialisers,
     constructors (mem-initialiser list, delegation, `= default`), member and
     friend functions (definitions and `= default` declarations);
  2. every body is parsed by a recursive-descent statement parser (`return e;`,
     `if(c){..}[else{..}]`, `[const] auto|T x = e;`, nested blocks) and a
     precedence-climbing expression parser (`?:`, `||`, `&&`, `==` `!=` `<`
     `<=` `>` `>=` `<=>`, `!`, unary `*`, `this`, member calls `x.f()`, calls
     of members through the implicit `this`, `Derived::f()`, parentheses,
     `true`/`false`) into an AST;
  3. the AST is typed (value of `value_type` = `Val`, `bool`, object of the
     class = `Obj`, comparison category results) with C++ overload/conversion
     rules for this class (contextual conversion to `bool` through `explicit
     operator bool`, `*x` through `operator*` const / non-const, `a == b` on
     objects through the friend `operator==`, built-in operators on
     `value_type` and on `bool`, conversion of comparison categories in
     `return`) and rendered into the vocabulary of the hand model: `uRel`,
     `uCmp3`, `boolCmp3`, `Cat.of`, `Cat.convertsTo`, `Ty.min/max/null`,
     `Res`, `Ord3.test`;
  4. `rel` (which function evaluates `a OP b`) is generated per configuration
     from the *set* of operators declared in it: a declared operator is called
     directly; otherwise, in the three-way configuration, `a != b` is rewritten
     to `!(a == b)` and the orderings to `(a <=> b) OP 0`; otherwise the
     expression is ill-formed.

Nothing is keyed to today's text: operators, operands, their order, callees,
constants, conditions, statement order, declared return types, initialisers and
the set of declared operators all flow from the AST into the Lean term.
Whitespace, comments, names of parameters/locals (they only become Lean binder
names), `noexcept`, `constexpr`, `SBEPP_CPPxx_CONSTEXPR`, `friend`, `explicit`
do not.

A member that cannot be found, parsed or typed is listed in
`report['failed'][class.leanName]` and gets no definition (neither does a member
that calls it), so the corresponding theorem of `Lemmas/OptionalTie.lean` stops
building.

C++ typing facts the translator assumes:
  * `T` (first template parameter, = `value_type`) is one of the 11 primitive
    arithmetic types; an object of `T` is its bit pattern (`Nat`); the built-in
    `a OP b` on two `T`s is `uRel T.p OP a b` and `a <=> b` is `uCmp3 T.p a b`
    of category `std::compare_three_way_result_t<T>` = `Cat.of T.p` (integral
    promotion does not change a comparison of two operands of one type);
    value-initialisation `T{}` is the all-zero pattern;
  * `Derived::min_value()/max_value()/null_value()` are constant expressions of
    type `T`: the fields of the record `Ty`;
  * an object of the class is the value of its only data member; a parameter
    of type `const C&` and `*this` are objects; a function returning
    `value_type&` is read as returning the value;
  * operands have no side effects, so `&&`/`||`/`?:` are the strict Boolean
    functions with the operands in source order;
  * a defaulted `operator<=>` compares the data members in declaration order
    (here: one member, `a.val <=> b.val`), has the category of that comparison,
    and implicitly declares a defaulted `operator==` (`a.val == b.val`);
  * a `return e;` in a function whose declared return type is a comparison
    category converts the category of `e` to it; if any such conversion does
    not exist the instantiation is ill-formed whatever the operands (`none`);
  * `SBEPP_DOXYGEN` is not defined in any build.
"""
import hashlib
import os
import re

from . import cxx
from .cxx import ExtractError, strip_comments
from .kernels import write_if_changed

HPP = 'sbepp/src/sbepp/sbepp.hpp'
OUT = 'OptionalMethods.lean'
CONFIGS = ('ops', 'spaceship')          # SBEPP_HAS_THREE_WAY_COMPARISON == 0 / 1
PP_VALUES = {'ops': {'SBEPP_HAS_THREE_WAY_COMPARISON': 0}, 'spaceship': {'SBEPP_HAS_THREE_WAY_COMPARISON': 1}}
PP_UNDEFINED = {'SBEPP_DOXYGEN'}

CLASSES = [('required_base', 'RequiredBase'), ('optional_base', 'OptionalBase')]

# members the tie theorems need (lean name); anything else found in the class is translated as well
EXPECTED = {
    'required_base': ['ctorDefault', 'ctorValue', 'value', 'derefRef', 'deref', 'inRange',
                      'opCmp3', 'opEqDefaulted', 'opEq', 'opNe', 'opLt', 'opLe', 'opGt', 'opGe', 'rel'],
    'optional_base': ['ctorDefault', 'ctorNullopt', 'ctorValue', 'value', 'derefRef', 'deref', 'inRange',
                      'valueOr', 'hasValue', 'toBool', 'opEq', 'opCmp3Ret', 'opCmp3',
                      'opNe', 'opLt', 'opLe', 'opGt', 'opGe', 'rel'],
}

REL_OF = {'==': 'eq', '!=': 'ne', '<': 'lt', '<=': 'le', '>': 'gt', '>=': 'ge'}
OP_NAME = {'==': 'opEq', '!=': 'opNe', '<': 'opLt', '<=': 'opLe', '>': 'opGt', '>=': 'opGe', '<=>': 'opCmp3'}

# ------------------------------------------------------------------ tokens

TOK = re.compile(r'''
    (?P<ws>\s+)
  | (?P<num>0[xX][0-9a-fA-F']+[uUlL]*|\d[\d']*(?:\.\d*)?(?:[eE][-+]?\d+)?[uUlLfF]*)
  | (?P<chr>'(?:[^'\\]|\\.)+')
  | (?P<id>[A-Za-z_][A-Za-z_0-9]*(?:::[A-Za-z_][A-Za-z_0-9]*)*)
  | (?P<str>"(?:[^"\\]|\\.)*")
  | (?P<op><<=|>>=|<=>|->|\+\+|--|<<|>>|<=|>=|==|!=|&&|\|\||\+=|-=|\*=|/=|%=|&=|\|=|\^=|::|[-+*/%<>=!~&|^?:;,.(){}\[\]])
''', re.X)


def tokenize(text, base=0):
    """-> [(kind, text, offset)]"""
    toks = []
    i = 0
    while i < len(text):
        m = TOK.match(text, i)
        if not m:
            raise ExtractError('cannot tokenize at: %r' % text[i:i + 30])
        k = m.lastgroup
        if k != 'ws':
            toks.append((k, m.group(k), base + i))
        i = m.end()
    return toks


# ------------------------------------------------------------------ preprocessor (class body only)

def preprocess(text, values):
    """blank out (keeping offsets) the directive lines and the lines excluded under `values`"""
    out = []
    stack = []          # (parent active, this branch active, some branch taken)
    active = True
    for line in text.split('\n'):
        s = line.strip()
        if s.startswith('#'):
            d = re.match(r'#\s*(\w+)\s*(.*)$', s)
            if not d:
                raise ExtractError('preprocessor line %r' % s)
            kind, arg = d.group(1), d.group(2).strip()
            if kind in ('if', 'ifdef', 'ifndef'):
                if not re.fullmatch(r'\w+', arg):
                    raise ExtractError('unsupported preprocessor condition %r' % s)
                if arg in PP_UNDEFINED:
                    val = {'if': False, 'ifdef': False, 'ifndef': True}[kind]
                elif arg in values:
                    val = {'if': bool(values[arg]), 'ifdef': True, 'ifndef': False}[kind]
                else:
                    raise ExtractError('preprocessor condition on unknown macro %r' % arg)
                stack.append((active, val))
                active = active and val
            elif kind == 'else':
                if not stack:
                    raise ExtractError('#else without #if')
                parent, val = stack.pop()
                stack.append((parent, not val))
                active = parent and not val
            elif kind == 'endif':
                if not stack:
                    raise ExtractError('#endif without #if')
                parent, _val = stack.pop()
                active = parent
            else:
                raise ExtractError('unsupported preprocessor directive %r' % s)
            out.append(' ' * len(line))
        else:
            out.append(line if active else ' ' * len(line))
    if stack:
        raise ExtractError('unterminated #if in the class body')
    return '\n'.join(out)


# ------------------------------------------------------------------ class location / member splitting

def find_class(src, name):
    """-> (template parameter names, body start, body end)"""
    m = re.search(r'template\s*<([^<>]*)>\s*class\s+(?:alignas\s*\([^()]*\)\s*)?%s\b[^;{]*\{' % re.escape(name), src)
    if not m:
        raise ExtractError('class %s not found' % name)
    tparams = []
    for p in m.group(1).split(','):
        pm = re.fullmatch(r'\s*(?:typename|class)\s+([A-Za-z_]\w*)\s*', p)
        if not pm:
            raise ExtractError('template parameter %r of %s' % (p.strip(), name))
        tparams.append(pm.group(1))
    if len(tparams) != 2:
        raise ExtractError('%s: expected template<typename T, typename Derived>' % name)
    start = m.end() - 1
    return tparams, start + 1, cxx.match_brace(src, start)


OPEN = {'(': ')', '{': '}', '[': ']'}


def group_end(toks, i):
    """toks[i] opens a group; index of the matching close"""
    depth = 0
    j = i
    while j < len(toks):
        v = toks[j][1]
        if toks[j][0] == 'op':
            if v in OPEN:
                depth += 1
            elif v in (')', '}', ']'):
                depth -= 1
                if depth == 0:
                    return j
        j += 1
    raise ExtractError('unbalanced brackets')


DECORATION = re.compile(r'^(SBEPP_CPP\d+_(?:CONSTEXPR|NODISCARD|INLINE_VAR)|SBEPP_\w*NODISCARD|constexpr|inline|static|friend|'
                        r'explicit|noexcept)$')


class Member:
    pass


def split_members(toks, class_name):
    """token list of a (preprocessed) class body -> (aliases, data members, functions)"""
    aliases, data, funcs = {}, [], []
    i = 0
    n = len(toks)
    while i < n:
        k, v, off = toks[i]
        if k == 'id' and v in ('public', 'private', 'protected') and i + 1 < n and toks[i + 1][1] == ':':
            i += 2
            continue
        if k == 'op' and v == ';':
            i += 1
            continue
        if k == 'id' and v == 'using':
            j = i
            while toks[j][1] != ';':
                j += 1
            if toks[i + 2][1] != '=':
                raise ExtractError('unsupported using-declaration')
            aliases[toks[i + 1][1]] = [t[1] for t in toks[i + 3:j]]
            i = j + 1
            continue
        if k == 'id' and v in ('template', 'class', 'struct', 'enum', 'union', 'typedef', 'static_assert'):
            raise ExtractError('unsupported member declaration starting with `%s`' % v)
        # declarator: up to `;` or the `{` of a body / brace initialiser at depth 0
        j = i
        params = None           # (open, close) of the parameter list
        minit = None            # token index of the `:` of a mem-initialiser list
        while True:
            if j >= n:
                raise ExtractError('unterminated member declaration')
            kk, vv, _o = toks[j]
            if kk == 'op' and vv == '(':
                e = group_end(toks, j)
                # `operator()` itself is not a parameter list
                if params is None and not (toks[j - 1][1] == 'operator' and e == j + 1):
                    params = (j, e)
                j = e + 1
                continue
            if kk == 'op' and vv == ':' and params is not None and minit is None:
                # mem-initialiser list: name {args} | name (args), ... up to the body
                minit = j
                q = j + 1
                while True:
                    if q + 1 >= n or toks[q][0] != 'id' or toks[q + 1][1] not in ('{', '('):
                        raise ExtractError('mem-initialiser list')
                    q = group_end(toks, q + 1) + 1
                    if q < n and toks[q][1] == ',':
                        q += 1
                        continue
                    break
                j = q
                if j >= n or toks[j][1] != '{':
                    raise ExtractError('mem-initialiser list not followed by a body')
                break
            if kk == 'op' and vv in (';', '{'):
                break
            j += 1
        head = toks[i:j]
        if params is None:
            # data member: `type name;` | `type name{init};` | `type name = init;`
            names = [t[1] for t in head]
            init = None
            end = j
            if toks[j][1] == '{':
                e = group_end(toks, j)
                init = ('brace', toks[j + 1:e])
                end = e + 1
                if end >= n or toks[end][1] != ';':
                    raise ExtractError('data member initialiser not followed by `;`')
            elif '=' in names:
                q = names.index('=')
                init = ('eq', head[q + 1:])
                names = names[:q]
            names = [x for x in names if not DECORATION.match(x) and x != 'mutable']
            if 'static' in [t[1] for t in head]:
                raise ExtractError('static data member')
            if len(names) < 2:
                raise ExtractError('unsupported member declaration %r' % ' '.join(t[1] for t in head))
            data.append({'type': names[:-1], 'name': names[-1], 'init': init, 'off': off})
            i = end + 1
            continue
        f = Member()
        f.off = off
        f.head_toks = head
        po, pc = params
        f.param_toks = toks[po + 1:pc]
        before = toks[i:po]
        names = [t[1] for t in before]
        if 'operator' in names:
            q = names.index('operator')
            f.cxx_name = 'operator' + ' '.join(names[q + 1:]).replace(' ', '') if names[q + 1:] and \
                not re.match(r'[A-Za-z_]', names[q + 1]) else 'operator ' + ' '.join(names[q + 1:])
            ret = names[:q]
        else:
            f.cxx_name = names[-1]
            ret = names[:-1]
        if f.cxx_name.startswith('operator ') and not [x for x in ret if not DECORATION.match(x)]:
            ret = ret + names[names.index('operator') + 1:]      # conversion function: the target type
        f.friend = 'friend' in ret
        f.explicit = 'explicit' in ret
        f.ret = [x for x in ret if not DECORATION.match(x)]
        stop = minit if minit is not None else j
        trailer = [t[1] for t in toks[pc + 1:stop]]
        f.defaulted = False
        f.deleted = False
        if toks[j][1] == ';' and '=' in trailer:
            q = trailer.index('=')
            spec = trailer[q + 1:]
            trailer = trailer[:q]
            if spec == ['default']:
                f.defaulted = True
            elif spec == ['delete']:
                f.deleted = True
            else:
                raise ExtractError('%s: unsupported `= %s`' % (f.cxx_name, ' '.join(spec)))
        if any(x not in ('const', 'noexcept', '&') for x in trailer):
            raise ExtractError('%s: unexpected tokens after the parameter list: %r' % (f.cxx_name, trailer))
        f.const = 'const' in trailer
        f.minit = None
        if minit is not None:
            # mem-initialiser list: name {args} | name (args), ...
            f.minit = []
            q = minit + 1
            while True:
                if toks[q][0] != 'id' or toks[q + 1][1] not in ('{', '('):
                    raise ExtractError('%s: mem-initialiser list' % f.cxx_name)
                e = group_end(toks, q + 1)
                f.minit.append((toks[q][1], toks[q + 2:e]))
                q = e + 1
                if toks[q][1] == ',':
                    q += 1
                    continue
                break
            if q != j or toks[j][1] != '{':
                raise ExtractError('%s: mem-initialiser list not followed by a body' % f.cxx_name)
        if toks[j][1] == '{':
            e = group_end(toks, j)
            f.body_toks = toks[j + 1:e]
            f.body_span = (toks[j][2], toks[e][2])
            f.declared_only = False
            i = e + 1
        else:
            f.body_toks = None
            f.body_span = None
            f.declared_only = not (f.defaulted or f.deleted)
            i = j + 1
        f.is_ctor = f.cxx_name == class_name
        funcs.append(f)
    return aliases, data, funcs


def split_params(ptoks):
    """-> [(type tokens, name|None)]"""
    out, cur, depth = [], [], 0
    for k, v, _o in list(ptoks) + [('op', ',', 0)]:
        if k == 'op' and v in ('<', '(', '{', '['):
            depth += 1
        elif k == 'op' and v in ('>', ')', '}', ']'):
            depth -= 1
        if k == 'op' and v == ',' and depth == 0:
            if cur:
                if '=' in cur:
                    raise ExtractError('default argument')
                if len(cur) > 1 and re.fullmatch(r'[A-Za-z_]\w*', cur[-1]) and cur[-1] != 'const':
                    out.append((cur[:-1], cur[-1]))
                else:
                    out.append((cur, None))
            cur = []
        else:
            cur.append(v)
    return out


# ------------------------------------------------------------------ parser (AST)
# expressions: ('bool', b) ('int', text) ('id', name) ('this',) ('call', callee, [args]) ('member', obj, name)
#   ('un', op, e) ('bin', op, a, b) ('cond', c, a, b) ('brace', type tokens, [args])
# statements: ('return', e) ('if', c, [then], [else]|None) ('decl', type tokens|None, name, e) ('block', [stmts])

BIN_PREC = {'||': 1, '&&': 2, '|': 3, '^': 4, '&': 5, '==': 6, '!=': 6, '<': 7, '<=': 7, '>': 7, '>=': 7, '<=>': 8,
            '<<': 9, '>>': 9, '+': 10, '-': 10, '*': 11, '/': 11, '%': 11}


class Parser:
    def __init__(self, toks, is_type):
        self.t = toks
        self.i = 0
        self.is_type = is_type

    def peek(self, k=0):
        return self.t[self.i + k][:2] if self.i + k < len(self.t) else ('eof', '')

    def next(self):
        tok = self.peek()
        self.i += 1
        return tok

    def at(self, val, k=0):
        tok = self.peek(k)
        return tok[1] == val and tok[0] in ('op', 'id')

    def expect(self, val):
        tok = self.next()
        if tok[1] != val:
            raise ExtractError('expected %r, got %r near %r' % (
                val, tok[1], ' '.join(x[1] for x in self.t[max(0, self.i - 6):self.i + 4])))

    def eof(self):
        return self.peek()[0] == 'eof'

    # ---- statements
    def stmts(self):
        out = []
        while not self.eof() and not self.at('}'):
            out.append(self.stmt())
        return out

    def block(self):
        self.expect('{')
        out = self.stmts()
        self.expect('}')
        return out

    def body(self):
        return self.block() if self.at('{') else [self.stmt()]

    def starts_decl(self):
        j = 0
        if self.at('const', j):
            j += 1
        k, v = self.peek(j)
        if k != 'id' or not (v == 'auto' or self.is_type(v)):
            return False
        j += 1
        while self.peek(j)[1] in ('&', 'const'):
            j += 1
        return self.peek(j)[0] == 'id' and self.peek(j + 1)[1] in ('=', '{')

    def stmt(self):
        k, v = self.peek()
        if k == 'op' and v == '{':
            return ('block', self.block())
        if k == 'op' and v == ';':
            self.next()
            return ('block', [])
        if k == 'id' and v == 'return':
            self.next()
            if self.at(';'):
                raise ExtractError('return without a value')
            e = self.expr()
            self.expect(';')
            return ('return', e)
        if k == 'id' and v == 'if':
            self.next()
            if self.at('constexpr'):
                raise ExtractError('if constexpr is not supported')
            self.expect('(')
            c = self.expr()
            self.expect(')')
            then = self.body()
            els = None
            if self.at('else'):
                self.next()
                els = self.body()
            return ('if', c, then, els)
        if k == 'id' and v in ('for', 'while', 'do', 'switch', 'goto', 'try', 'throw', 'break', 'continue',
                               'SBEPP_ASSERT', 'SBEPP_SIZE_CHECK'):
            raise ExtractError('unsupported statement `%s` (the hand model of this class is a pure function)' % v)
        if self.starts_decl():
            if self.at('const'):
                self.next()
            ty = [self.next()[1]]
            while self.peek()[1] in ('&', 'const'):
                self.next()
            name = self.next()[1]
            if self.at('='):
                self.next()
                init = self.expr()
            else:
                self.expect('{')
                init = self.expr()
                self.expect('}')
            self.expect(';')
            return ('decl', None if ty == ['auto'] else ty, name, init)
        raise ExtractError('unsupported statement starting with %r (only return / if / declarations occur in '
                           'a side-effect free member function)' % v)

    # ---- expressions
    def args(self, close):
        out = []
        if not self.at(close):
            out.append(self.expr())
            while self.at(','):
                self.next()
                out.append(self.expr())
        self.expect(close)
        return out

    def expr(self):
        c = self.binary(1)
        k, v = self.peek()
        if k == 'op' and v == '?':
            self.next()
            a = self.expr()
            self.expect(':')
            b = self.expr()
            return ('cond', c, a, b)
        if k == 'op' and v in ('=', '+=', '-=', '*=', '/=', '%=', '&=', '|=', '^=', '<<=', '>>='):
            raise ExtractError('assignment is not supported')
        return c

    def binary(self, minp):
        lhs = self.unary()
        while True:
            k, v = self.peek()
            if k != 'op' or v not in BIN_PREC or BIN_PREC[v] < minp:
                return lhs
            self.next()
            rhs = self.binary(BIN_PREC[v] + 1)
            lhs = ('bin', v, lhs, rhs)

    def unary(self):
        k, v = self.peek()
        if k == 'op' and v in ('!', '-', '+', '*', '~', '&', '++', '--'):
            self.next()
            return ('un', v, self.unary())
        return self.postfix()

    def postfix(self):
        e = self.primary()
        while True:
            k, v = self.peek()
            if k != 'op':
                return e
            if v == '(':
                self.next()
                e = ('call', e, self.args(')'))
            elif v == '.':
                self.next()
                k2, name = self.next()
                if k2 != 'id':
                    raise ExtractError('member name expected after `.`')
                e = ('member', e, name)
            elif v == '->':
                self.next()
                k2, name = self.next()
                if k2 != 'id':
                    raise ExtractError('member name expected after `->`')
                e = ('member', ('un', '*', e), name)
            elif v in ('++', '--', '['):
                raise ExtractError('operator %s is not supported' % v)
            else:
                return e

    def primary(self):
        k, v = self.next()
        if k == 'num':
            return ('int', v)
        if k == 'op' and v == '(':
            e = self.expr()
            self.expect(')')
            return e
        if k == 'id':
            if v in ('true', 'false'):
                return ('bool', v == 'true')
            if v == 'this':
                return ('this',)
            if v in ('sizeof', 'static_cast', 'reinterpret_cast', 'const_cast', 'nullptr'):
                raise ExtractError('%s is not supported' % v)
            if self.at('{'):
                self.next()
                return ('brace', [v], self.args('}'))
            return ('id', v)
        raise ExtractError('unexpected token %r' % v)


# ------------------------------------------------------------------ typing / rendering

class E:
    """elaborated expression: Lean text + model type ('Val', 'Bool', 'Obj', ('Ord', category text))"""

    def __init__(self, text, ty, atom=False):
        self.text, self.ty, self.atom = text, ty, atom

    def p(self):
        return self.text if self.atom else '(%s)' % self.text


def camel(name):
    parts = name.split('_')
    return parts[0] + ''.join(x[:1].upper() + x[1:] for x in parts[1:])


class ClassTr:
    """one class under both configurations"""

    def __init__(self, src, cname, ns):
        self.src, self.cname, self.ns = src, cname, ns
        self.failed = {}
        self.extra_failed = {}
        self.members = {}        # lean name -> Member (with .configs)
        self.order = []
        self.rendered = {}       # lean name -> (signature text, return type text, body lines) | ExtractError
        self.deps = {}

    # ---- collection
    def collect(self):
        self.tparams, s, e = find_class(self.src, self.cname)
        self.T, self.Derived = self.tparams
        body = self.src[s:e]
        per = {}
        for cfg in CONFIGS:
            toks = tokenize(preprocess(body, PP_VALUES[cfg]), s)
            per[cfg] = split_members(toks, self.cname)
        self.aliases = per[CONFIGS[0]][0]
        for cfg in CONFIGS:
            if per[cfg][0] != self.aliases:
                raise ExtractError('using-aliases differ between the configurations')
        datas = {cfg: [(d['off'], d['name']) for d in per[cfg][1]] for cfg in CONFIGS}
        if datas['ops'] != datas['spaceship']:
            raise ExtractError('data members differ between the configurations')
        self.data = per['ops'][1]
        if len(self.data) != 1:
            raise ExtractError('%s: exactly one non-static data member expected, found %r' % (
                self.cname, [d['name'] for d in self.data]))
        if self.resolve(self.data[0]['type']) != 'Val':
            raise ExtractError('data member %s is not a value_type' % self.data[0]['name'])
        self.field = self.data[0]['name']
        # functions by offset
        by_off = {}
        for cfg in CONFIGS:
            for f in per[cfg][2]:
                g = by_off.setdefault(f.off, f)
                g.configs = getattr(g, 'configs', ()) + (cfg,)
        named = {}
        for off in sorted(by_off):
            f = by_off[off]
            if f.declared_only or f.deleted:
                continue
            try:
                f.params = [(self.resolve(ty), name) for ty, name in split_params(f.param_toks)]
                f.lean = self.lean_name(f)
            except ExtractError as ex:
                self.extra_failed['%s@%d' % (f.cxx_name, self.line(off))] = str(ex)
                continue
            named.setdefault(f.lean, []).append(f)
        for lean, fs in named.items():
            if len(fs) == 1:
                self.members[lean] = fs[0]
            elif len(fs) == 2 and not set(fs[0].configs) & set(fs[1].configs):
                for f in fs:
                    f.lean = lean + ('Ops' if f.configs == ('ops',) else 'Ship')
                    self.members[f.lean] = f
            else:
                self.failed[lean] = 'more than one definition in one configuration'
        # the defaulted operator== that a defaulted operator<=> implicitly declares
        f3 = self.members.get('opCmp3')
        if f3 is not None and f3.defaulted and not any(
                m.cxx_name == 'operator==' and set(m.configs) & set(f3.configs) for m in self.members.values()):
            g = Member()
            g.__dict__.update(f3.__dict__)
            g.cxx_name, g.lean, g.implicit_eq, g.ret = 'operator==', 'opEqDefaulted', True, ['bool']
            self.members['opEqDefaulted'] = g
        self.order = sorted(self.members, key=lambda n: (self.members[n].off, n))

    def line(self, off):
        return self.src.count('\n', 0, off) + 1

    def resolve(self, toks):
        t = [v for v in toks if v not in ('const', 'typename', 'volatile')]
        ref = False
        while t and t[-1] == '&':
            ref = True
            t = t[:-1]
        name = ''.join(t)
        if name in (self.T,):
            return 'Val'
        if name == 'bool' and not ref:
            return 'Bool'
        if name == self.cname:
            return 'Obj'
        if name in ('nullopt_t', 'sbepp::nullopt_t', '::sbepp::nullopt_t'):
            return 'Nullopt'
        if name in self.aliases:
            return self.resolve(self.aliases[name])
        if name == 'auto':
            return 'Auto'
        cats = {'std::strong_ordering': '.strongOrdering', 'std::partial_ordering': '.partialOrdering'}
        if name in cats:
            return ('Cat', 'Cat', cats[name])
        m = re.fullmatch(r'std::compare_three_way_result_t<(.*)>', name)
        if m and self.resolve([m.group(1)]) == 'Val':
            return ('Cat', 'Cat', 'Cat.of T.p')
        raise ExtractError('unknown type %r' % ' '.join(toks))

    def is_type(self, ident):
        if ident in ('auto', 'bool', self.T, self.cname) or ident in self.aliases:
            return True
        return ident.startswith('std::')

    def lean_name(self, f):
        ptys = [t for t, _n in f.params]
        if f.is_ctor:
            key = {(): 'Default', ('Nullopt',): 'Nullopt', ('Val',): 'Value'}.get(tuple(ptys))
            if key is None:
                raise ExtractError('constructor with parameters %r' % (ptys,))
            return 'ctor' + key
        n = f.cxx_name
        if n == 'operator*' and not ptys and not f.friend:
            return 'deref' if f.const else 'derefRef'
        if n == 'operator bool':
            return 'toBool'
        if n.startswith('operator'):
            op = n[len('operator'):]
            if op in OP_NAME and f.friend and ptys == ['Obj', 'Obj']:
                return OP_NAME[op]
            raise ExtractError('unsupported operator function %s(%s)' % (n, ', '.join(map(str, ptys))))
        if f.friend:
            raise ExtractError('friend function %s' % n)
        return camel(n)

    # ---- rendering of one member
    def render(self, lean, stack=()):
        if lean in self.rendered:
            r = self.rendered[lean]
            if isinstance(r, ExtractError):
                raise ExtractError('callee %s: %s' % (lean, r))
            return r
        if lean in stack:
            raise ExtractError('recursive call of %s' % lean)
        f = self.members[lean]
        try:
            fe = FuncElab(self, f, stack + (lean,))
            r = fe.run()
            self.deps[lean] = list(fe.callees)
        except ExtractError as ex:
            self.rendered[lean] = ex
            raise
        self.rendered[lean] = r
        return r

    def lookup(self, cxx_name, nargs, caller, const_obj=True, friend=False):
        """member function `cxx_name` callable in every configuration of `caller`"""
        cands = [m for m in self.members.values()
                 if m.cxx_name == cxx_name and len(m.params) == nargs and m.friend == friend and not m.is_ctor
                 and not getattr(m, 'implicit_eq', False)]
        cands = [m for m in cands if set(caller.configs) <= set(m.configs)]
        if not friend:
            ok = [m for m in cands if m.const == const_obj]
            if not ok and not const_obj:
                ok = [m for m in cands if m.const]      # a non-const object can call a const member
            cands = ok
        if len(cands) != 1:
            raise ExtractError('%s: %d viable candidates for `%s` with %d argument(s)' % (
                caller.cxx_name, len(cands), cxx_name, nargs))
        return cands[0]


class FuncElab:
    def __init__(self, tr, f, stack):
        self.tr, self.f, self.stack = tr, f, stack
        self.env = {}
        self.returns = []        # categories of the operands of `return`, in source order
        self.callees = []

    # ---- entry
    def run(self):
        tr, f = self.tr, self.f
        binders = ['(T : Ty)']
        self.self_obj = None
        member_fn = not f.friend and not f.is_ctor
        if f.defaulted and not f.is_ctor:
            return ('(T : Ty) (a b : Nat)',) + self.defaulted_cmp()
        if member_fn:
            self.self_obj = tr.field
            binders.append('(%s : Nat)' % tr.field)
        for ty, name in f.params:
            if ty == 'Nullopt':
                continue            # a tag: carries no value
            if name is None:
                raise ExtractError('unnamed parameter')
            if ty not in ('Val', 'Obj', 'Bool'):
                raise ExtractError('parameter of type %r' % (ty,))
            if name in self.env:
                raise ExtractError('duplicate parameter name')
            self.env[name] = ty
            binders.append('(%s : %s)' % (name, 'Bool' if ty == 'Bool' else 'Nat'))
        for ty, name in f.params:
            if ty == 'Obj' and not ('const' in self.param_type_toks(name)):
                self.env[name] = 'ObjMut'
        sig = ' '.join(binders)
        if f.is_ctor:
            return sig, 'Nat', ['  ' + self.ctor()], None
        ret = tr.resolve(f.ret)
        p = Parser(f.body_toks, tr.is_type)
        ast = p.stmts()
        if not p.eof():
            raise ExtractError('trailing tokens in the body')
        self.ret = ret
        if isinstance(ret, tuple):
            body = self.block(ast, 2)
            convs = ' && '.join('Cat.convertsTo %s (%sRet T)' % (c if re.fullmatch(r'[.\w]+', c) else '(%s)' % c, f.lean)
                                for c in self.returns)
            lines = ['  if %s then' % convs, '    some (' + body[0].lstrip()] + body[1:]
            lines[-1] += ')'
            lines.append('  else none')
            return sig, 'Option Ord3', lines, ret[2]
        if ret == 'Auto':
            raise ExtractError('deduced return type of a non-defaulted function')
        if ret not in ('Val', 'Bool'):
            raise ExtractError('return type %r' % (ret,))
        return sig, 'Bool' if ret == 'Bool' else 'Nat', self.block(ast, 1), None

    def param_type_toks(self, name):
        for ty, n in split_params(self.f.param_toks):
            if n == name:
                return ty
        return []

    # ---- constructors / defaulted comparisons
    def member_default(self):
        d = self.tr.data[0]
        if d['init'] is None:
            raise ExtractError('data member %s has no initialiser: indeterminate value' % d['name'])
        kind, toks = d['init']
        return self.init_value(toks, {})

    def init_value(self, toks, env):
        if not toks:
            return '0'              # value-initialisation
        saved, self.env, so = self.env, env, self.self_obj
        self.self_obj = None       # the object under construction cannot be read
        try:
            p = Parser(list(toks), self.tr.is_type)
            e = p.expr()
            if not p.eof():
                raise ExtractError('initialiser with more than one expression')
            x = self.expr(e)
        finally:
            self.env, self.self_obj = saved, so
        if x.ty != 'Val':
            raise ExtractError('initialiser of type %r for a value_type member' % (x.ty,))
        return x.text

    def ctor(self):
        f, tr = self.f, self.tr
        if f.defaulted:
            if f.params:
                raise ExtractError('defaulted constructor with parameters')
            return self.member_default()
        if [t for t in f.body_toks]:
            raise ExtractError('constructor with a non-empty body')
        inits = f.minit or []
        if len(inits) == 1 and inits[0][0] == tr.cname:
            # delegating constructor
            p = Parser(list(inits[0][1]) + [('op', ';', 0)], tr.is_type)
            args = []
            if not p.at(';'):
                args.append(p.expr())
                while p.at(','):
                    p.next()
                    args.append(p.expr())
            xs = [self.expr(a) for a in args]
            key = {(): 'ctorDefault', ('Val',): 'ctorValue'}.get(tuple(x.ty for x in xs))
            if key is None or key not in tr.members or key == f.lean:
                raise ExtractError('delegation to an unknown constructor')
            self.call_dep(key)
            return ' '.join([key, 'T'] + [x.p() for x in xs])
        names = [n for n, _t in inits]
        if len(set(names)) != len(names) or any(n != tr.field for n in names):
            raise ExtractError('mem-initialiser list %r' % names)
        if not inits:
            return self.member_default()
        return self.init_value(inits[0][1], dict(self.env))

    def defaulted_cmp(self):
        f = self.f
        if [t for t, _n in f.params] != ['Obj', 'Obj'] or not f.friend:
            raise ExtractError('defaulted function that is not a friend comparison of two objects')
        if getattr(f, 'implicit_eq', False):
            return_ty, body = 'Bool', '  uRel T.p .eq a b'
        elif f.cxx_name == 'operator<=>':
            if self.tr.resolve(f.ret) != 'Auto':
                raise ExtractError('defaulted operator<=> with a declared return type')
            return_ty, body = 'Ord3', '  uCmp3 T.p a b'
        else:
            raise ExtractError('defaulted %s' % f.cxx_name)
        return return_ty, [body], None

    # ---- statements
    def block(self, stmts, ind):
        pad = '  ' * ind
        flat = []
        for st in stmts:
            if st[0] == 'block':
                if any(s[0] == 'decl' for s in st[1]):
                    raise ExtractError('declaration in a nested block')
                flat += st[1]
            else:
                flat.append(st)
        if not flat:
            raise ExtractError('control reaches the end of a non-void function')
        st, rest = flat[0], flat[1:]
        if st[0] == 'return':
            if rest:
                raise ExtractError('statements after return')
            return [pad + self.ret_value(st[1])]
        if st[0] == 'decl':
            _k, ty, name, init = st
            x = self.expr(init)
            if ty is not None:
                want = self.tr.resolve(ty)
                if want == 'Obj' or x.ty != want:
                    raise ExtractError('declaration of %s: %r initialised by %r' % (name, want, x.ty))
            if x.ty not in ('Val', 'Bool'):
                raise ExtractError('local variable of type %r' % (x.ty,))
            saved = dict(self.env)
            self.env[name] = x.ty
            out = ['%slet %s := %s' % (pad, name, x.text)] + self.block(rest, ind)
            self.env = saved
            return out
        if st[0] == 'if':
            _k, c, then, els = st
            cond = self.to_bool(self.expr(c))
            if els is None:
                if not terminates(then):
                    raise ExtractError('`if` without `else` whose branch does not return')
                t = self.block(then, ind + 1)
                e = self.block(rest, ind + 1)
            else:
                if terminates(then) and terminates(els):
                    if rest:
                        raise ExtractError('statements after an if/else that always returns')
                    t = self.block(then, ind + 1)
                    e = self.block(els, ind + 1)
                elif terminates(then):
                    t = self.block(then, ind + 1)
                    e = self.block(list(els) + rest, ind + 1)
                elif terminates(els):
                    # source order of the `return`s is kept: then-branch (with the rest) first
                    t = self.block(list(then) + rest, ind + 1)
                    e = self.block(els, ind + 1)
                else:
                    raise ExtractError('if/else without return in a side-effect free function')
            return ['%sif %s then' % (pad, cond.text)] + t + ['%selse' % pad] + e
        raise ExtractError('statement kind %s' % st[0])

    def ret_value(self, e):
        x = self.expr(e)
        ret = self.ret
        if isinstance(ret, tuple):
            if not isinstance(x.ty, tuple):
                raise ExtractError('return of %r from a function returning a comparison category' % (x.ty,))
            self.returns.append(x.ty[1])
            return x.text
        if x.ty == 'Obj' and ret == 'Bool':
            raise ExtractError('return: `explicit operator bool` is not considered in copy-initialisation')
        if x.ty != ret:
            raise ExtractError('return: no conversion from %r to %r' % (x.ty, ret))
        return x.text

    # ---- expressions
    def call_dep(self, lean):
        self.tr.render(lean, self.stack)
        if lean not in self.callees:
            self.callees.append(lean)

    def to_bool(self, x):
        if x.ty == 'Bool':
            return x
        if x.ty in ('Obj', 'ObjMut'):
            m = self.tr.lookup('operator bool', 0, self.f, const_obj=x.ty == 'Obj')
            self.call_dep(m.lean)
            return E('%s T %s' % (m.lean, x.p()), 'Bool')
        raise ExtractError('%r used as a condition' % (x.ty,))

    def method_call(self, obj, name, args):
        m = self.tr.lookup(name, len(args), self.f, const_obj=obj.ty == 'Obj')
        xs = []
        for (pty, _pn), a in zip(m.params, args):
            x = self.expr(a)
            if x.ty != pty:
                raise ExtractError('argument of %s: %r passed for %r' % (name, x.ty, pty))
            xs.append(x)
        self.call_dep(m.lean)
        _sig, rty, _body, _cat = self.tr.rendered[m.lean]
        ty = {'Nat': 'Val', 'Bool': 'Bool'}.get(rty)
        if ty is None:
            raise ExtractError('call of %s returning %s inside an expression' % (name, rty))
        return E(' '.join(['%s T %s' % (m.lean, obj.p())] + [x.p() for x in xs]), ty)

    def this_obj(self):
        if self.self_obj is None:
            raise ExtractError('`this` outside a non-static member function')
        return E(self.self_obj, 'Obj' if self.f.const else 'ObjMut', atom=True)

    def expr(self, x):
        k = x[0]
        tr = self.tr
        if k == 'bool':
            return E('true' if x[1] else 'false', 'Bool', atom=True)
        if k == 'int':
            raise ExtractError('numeric literal %s (values are bit patterns; arithmetic on value_type is not modelled)' % x[1])
        if k == 'id':
            name = x[1]
            if name in self.env:
                ty = self.env[name]
                return E(name, ty, atom=True)
            if name == tr.field and self.self_obj is not None:
                return E(self.self_obj, 'Val', atom=True)
            raise ExtractError('unknown identifier %s' % name)
        if k == 'this':
            raise ExtractError('`this` used other than as `*this` / `this->`')
        if k == 'un':
            op, a = x[1], x[2]
            if op == '*' and a == ('this',):
                return self.this_obj()
            if op == '*':
                o = self.expr(a)
                if o.ty in ('Obj', 'ObjMut'):
                    return self.method_call(o, 'operator*', [])
                raise ExtractError('unary * on %r' % (o.ty,))
            if op == '!':
                b = self.to_bool(self.expr(a))
                return E('!%s' % b.p(), 'Bool')
            raise ExtractError('unary operator %s' % op)
        if k == 'member':
            o = self.expr(x[1])
            if o.ty in ('Obj', 'ObjMut') and x[2] == tr.field:
                return E(o.text, 'Val', atom=o.atom)
            raise ExtractError('member %s of %r' % (x[2], o.ty))
        if k == 'call':
            callee, args = x[1], x[2]
            if callee[0] == 'id':
                name = callee[1]
                m = re.fullmatch(r'(\w+)::(\w+)', name)
                if m and m.group(1) == tr.Derived:
                    attr = {'min_value': 'T.min', 'max_value': 'T.max', 'null_value': 'T.null'}.get(m.group(2))
                    if attr is None or args:
                        raise ExtractError('unknown static function %s' % name)
                    return E(attr, 'Val', atom=True)
                if '::' in name:
                    raise ExtractError('unknown callee %s' % name)
                return self.method_call(self.this_obj(), name, args)
            if callee[0] == 'member':
                o = self.expr(callee[1])
                if o.ty not in ('Obj', 'ObjMut'):
                    raise ExtractError('member call on %r' % (o.ty,))
                return self.method_call(o, callee[2], args)
            raise ExtractError('unsupported callee')
        if k == 'cond':
            c = self.to_bool(self.expr(x[1]))
            a, b = self.expr(x[2]), self.expr(x[3])
            if a.ty != b.ty or a.ty in ('Obj', 'ObjMut'):
                raise ExtractError('conditional operator with operands %r and %r' % (a.ty, b.ty))
            return E('if %s then %s else %s' % (c.text, a.text, b.text), a.ty)
        if k == 'bin':
            return self.binary(x)
        if k == 'brace':
            raise ExtractError('braced initialisation inside an expression')
        raise ExtractError('expression kind %s' % k)

    def binary(self, x):
        _k, op, l, r = x
        tr = self.tr
        if op in ('&&', '||'):
            a, b = self.to_bool(self.expr(l)), self.to_bool(self.expr(r))
            return E('%s %s %s' % (a.p(), op, b.p()), 'Bool')
        a, b = self.expr(l), self.expr(r)
        objs = ('Obj', 'ObjMut')
        if op in REL_OF:
            if a.ty == 'Val' and b.ty == 'Val':
                return E('uRel T.p .%s %s %s' % (REL_OF[op], a.p(), b.p()), 'Bool')
            if a.ty == 'Bool' and b.ty == 'Bool':
                if op in ('==', '!='):
                    return E('%s %s %s' % (a.p(), op, b.p()), 'Bool')
                raise ExtractError('ordering comparison of two bools')
            if a.ty in objs and b.ty in objs:
                cands = [m for m in tr.members.values() if m.friend and m.cxx_name == 'operator' + op
                         and set(self.f.configs) <= set(m.configs) and not getattr(m, 'implicit_eq', False)]
                if len(cands) == 1:
                    m = cands[0]
                    self.call_dep(m.lean)
                    rty = tr.rendered[m.lean][1]
                    if rty != 'Bool':
                        raise ExtractError('operator%s returning %s' % (op, rty))
                    return E('%s T %s %s' % (m.lean, a.p(), b.p()), 'Bool')
                raise ExtractError('no declared operator%s on two objects in configuration(s) %s' % (
                    op, '/'.join(self.f.configs)))
            raise ExtractError('operator %s on %r and %r' % (op, a.ty, b.ty))
        if op == '<=>':
            if a.ty == 'Val' and b.ty == 'Val':
                return E('uCmp3 T.p %s %s' % (a.p(), b.p()), ('Ord', 'Cat.of T.p'))
            if a.ty == 'Bool' and b.ty == 'Bool':
                return E('boolCmp3 %s %s' % (a.p(), b.p()), ('Ord', '.strongOrdering'))
            raise ExtractError('operator <=> on %r and %r' % (a.ty, b.ty))
        raise ExtractError('operator %s is not modelled (values are bit patterns)' % op)


def terminates(stmts):
    if not stmts:
        return False
    last = stmts[-1]
    if last[0] == 'return':
        return True
    if last[0] == 'if' and last[3] is not None:
        return terminates(last[2]) and terminates(last[3])
    if last[0] == 'block':
        return terminates(last[1])
    return False


# ------------------------------------------------------------------ `rel`: which function evaluates `a OP b`

def render_rel(tr):
    lines = ['def rel (impl : Impl) (T : Ty) (r : Rel) (a b : Nat) : Res :=', '  match impl with']
    notes = {}
    for cfg in CONFIGS:
        lines.append('  | .%s =>' % cfg)
        lines.append('    match r with')

        def declared(op):
            ms = [m for m in tr.members.values() if m.cxx_name == 'operator' + op and m.friend and cfg in m.configs
                  and m.lean in tr.emitted]
            return ms[0] if len(ms) == 1 else None
        for op in ('==', '!=', '<', '<=', '>', '>='):
            r = REL_OF[op]
            m = declared(op)
            if m is not None and tr.rendered[m.lean][1] == 'Bool':
                term, how = '.val (%s T a b)' % m.lean, m.lean
            elif cfg == 'spaceship' and op == '!=' and declared('==') is not None:
                term, how = '.val (!%s T a b)' % declared('==').lean, 'rewritten !(a == b)'
            elif cfg == 'spaceship' and op not in ('==', '!=') and declared('<=>') is not None:
                m3 = declared('<=>')
                if tr.rendered[m3.lean][1] == 'Ord3':
                    term = '.val (Ord3.test .%s (%s T a b))' % (r, m3.lean)
                else:
                    term = ('match %s T a b with\n      | some o => .val (Ord3.test .%s o)\n      | none => .illFormed'
                            % (m3.lean, r))
                how = 'rewritten (a <=> b) %s 0' % op
            else:
                term, how = '.illFormed', 'no viable operator'
            notes['%s %s' % (cfg, op)] = how
            lines.append('    | .%s => %s' % (r, term))
    return lines, notes


# ------------------------------------------------------------------ output

def header():
    return ('-- GENERATED by /verif/extract/methods_optional.py from %s on every check run. Do not edit.\n'
            '-- Source: %s, classes sbepp::detail::required_base and sbepp::detail::optional_base.\n'
            '--\n'
            '-- One `def` per constructor / member function / friend operator, rendered from the parsed C++ text into\n'
            '-- the vocabulary of the hand model `Sbepp.Rt.Scalar` (`Lemmas/OptionalTie.lean` proves each equal to the\n'
            '-- hand-written definition).  `[ops]` / `[spaceship]`: the member exists only when\n'
            '-- SBEPP_HAS_THREE_WAY_COMPARISON is 0 / 1.  `rel`: which of them evaluates `a OP b`, generated from the set\n'
            '-- of operators declared in each configuration (C++20 rewriting of `!=` and of the orderings through\n'
            '-- `<=>` in the three-way configuration only).\n'
            '--\n'
            '-- C++ typing assumed by the translator: `T` = `value_type` is one of the 11 primitive types, an object of it\n'
            '-- is its bit pattern (`Nat`); built-in `a OP b` on two `T` = `uRel T.p OP a b`, `a <=> b` = `uCmp3 T.p a b`\n'
            '-- of category `Cat.of T.p`; `bool <=> bool` = `boolCmp3` (strong ordering); `T{}` = pattern 0;\n'
            '-- `Derived::min_value()/max_value()/null_value()` = `T.min/T.max/T.null`; an object of the class is the\n'
            '-- value of its only data member (a `const C&` parameter and `*this` alike); operands have no side effects,\n'
            '-- so `&&`, `||`, `?:` are the Boolean functions with operands in source order; a defaulted `operator<=>`\n'
            '-- compares the single data member and implicitly declares the defaulted `operator==`; `return e` in a\n'
            '-- function whose declared return type is a comparison category needs `Cat.convertsTo` for every `return`\n'
            '-- (else the body is ill-formed for all operands: `none`); SBEPP_DOXYGEN is never defined.\n'
            'import Sbepp.Rt.Optional\n\n'
            'set_option linter.unusedVariables false\n\n'
            'namespace Sbepp.Extracted.Optional\nopen Sbepp Sbepp.Ieee Sbepp.Rt.Scalar\n\n') % (HPP, HPP)


def source_text(tr, f):
    if f.body_span is not None:
        s, e = f.head_toks[0][2], f.body_span[1] + 1
    else:
        s, e = f.head_toks[0][2], f.head_toks[-1][2] + len(f.head_toks[-1][1])
    lines = [l.rstrip() for l in tr.src[s:e].split('\n') if l.strip()]
    ind = min((len(l) - len(l.lstrip()) for l in lines[1:]), default=0)
    return '\n'.join([lines[0].lstrip()] + [l[ind:] for l in lines[1:]]).replace('-/', '- /')


def emit_class(tr, report):
    out = ['namespace %s\n' % tr.ns]
    tr.emitted = []
    # dependency order: callees first, otherwise source order
    for lean in tr.order:
        try:
            tr.render(lean)
        except ExtractError as ex:
            tr.failed.setdefault(lean, str(ex))
    emitted = []

    def visit(lean):
        if lean in emitted or lean in tr.failed:
            return
        for c in tr.deps.get(lean, []):
            visit(c)
        emitted.append(lean)

    for lean in tr.order:
        visit(lean)
    tr.emitted = emitted
    for lean in emitted:
        f = tr.members[lean]
        sig, rty, body, cat = tr.rendered[lean]
        cfg = 'both configurations' if set(f.configs) == set(CONFIGS) else '/'.join(f.configs)
        what = ('implicitly declared by the defaulted operator<=>: ' if getattr(f, 'implicit_eq', False) else '')
        doc = '/-- sbepp.hpp:%d  [%s]  %s`%s`\n```\n%s\n```-/' % (tr.line(f.off), cfg, what, f.cxx_name, source_text(tr, f))
        if cat is not None:
            out.append('/-- declared return type of `%s`, sbepp.hpp:%d: `%s` -/\ndef %sRet (T : Ty) : Cat := %s\n' % (
                f.cxx_name, tr.line(f.off), ' '.join(f.ret), lean, cat))
            report['methods']['%s.%sRet' % (tr.ns, lean)] = {'line': tr.line(f.off), 'configs': list(f.configs)}
        out.append('%s\ndef %s %s : %s :=\n%s\n' % (doc, lean, sig, rty, '\n'.join(body)))
        report['methods']['%s.%s' % (tr.ns, lean)] = {
            'line': tr.line(f.off), 'cxx': f.cxx_name, 'configs': list(f.configs),
            'text': cxx.normalise_keep_words(source_text(tr, f))}
    rel_lines, notes = render_rel(tr)
    out.append('/-- which function evaluates `a OP b` on two objects, per configuration\n%s -/\n%s\n' % (
        '\n'.join('    %s: %s' % kv for kv in sorted(notes.items())), '\n'.join(rel_lines)))
    report['methods']['%s.rel' % tr.ns] = notes
    out.append('end %s\n' % tr.ns)
    have = set(emitted) | {'rel'} | {l + 'Ret' for l in emitted if tr.rendered[l][3] is not None}
    for want in EXPECTED[tr.cname]:
        if want not in have and want not in tr.failed:
            tr.failed[want] = 'member not found in class %s' % tr.cname
    return '\n'.join(out)


def extract(repo, outdir):
    path = os.path.join(repo, HPP)
    raw = open(path, encoding='utf-8').read()
    sha = hashlib.sha256(raw.encode()).hexdigest()
    report = {'source': HPP, 'sha256': sha, 'methods': {}, 'failed': {}, 'ignored': {}}
    src = strip_comments(raw)
    parts = []
    for cname, ns in CLASSES:
        tr = ClassTr(src, cname, ns)
        try:
            tr.collect()
            parts.append(emit_class(tr, report))
        except (ExtractError, ValueError, AssertionError, IndexError, KeyError, RecursionError) as ex:
            report['failed']['%s.class' % ns] = '%s: %s' % (type(ex).__name__, ex)
            parts.append('-- EXTRACTION FAILED: class %s: %s\n' % (cname, str(ex).replace('\n', ' ')))
            continue
        for k, v in tr.failed.items():
            report['failed']['%s.%s' % (ns, k)] = v
        for k, v in tr.extra_failed.items():
            report['ignored']['%s.%s' % (ns, k)] = v
    fails = ''.join('-- EXTRACTION FAILED: %s: %s\n' % (k, str(v).replace('\n', ' '))
                    for k, v in sorted(report['failed'].items()))
    text = header() + fails + ('\n' if fails else '') + '\n'.join(parts) + '\nend Sbepp.Extracted.Optional\n'
    write_if_changed(os.path.join(outdir, OUT), text)
    return report
