"""Translator for the accessor methods of the five cursor classes of sbepp.hpp
(`cursor`, `init_cursor_wrapper`, `init_dont_move_cursor_wrapper`,
`dont_move_cursor_wrapper`, `skip_cursor_wrapper`).

For every class the member function definitions are located by a declaration
scanner, their template header / parameter list / body are parsed
(tokens -> statement AST -> expression AST), the AST is type-checked with the
small C++ typing below and rendered into the monadic DSL of
`Sbepp.Rt.Cursor` + `Sbepp.Rt.Cursor.Dsl` (`lean/Sbepp/Rt/Cursor.lean`,
`CursorDsl.lean`).  Nothing is keyed to today's text of a method: the same code
translates all 48 bodies, and an edit of an operator, operand, callee, tag,
argument order, statement order or a dropped/added statement changes the
generated term.

Output: lean/Sbepp/Extracted/CursorMethods.lean + a report (dict).  The
generated definitions are tied to the hand model by
`lean/Sbepp/Lemmas/CursorTie.lean` (`<Class>.<method>_tie`).

C++ typing facts the translator assumes (also written into the generated file):
  * the first function parameter (`const View view`) is the view of the level
    (Lean `LView`): `view(addressof_tag{})` = `some view.addr`,
    `view(get_level_tag{})` = `some view.lvl`, `view(get_block_length_tag{})` =
    `view.wbl` (a size), `view(end_ptr_tag{})` = `view.endp`;
  * `Byte*` values are `Option Nat` offsets (`none` = nullptr); `std::size_t`
    values are `Nat` (offsets and sizes are small compile-time constants: no
    wrap-around is modelled), `p - n` is truncated;
  * the data member `Byte* ptr` of `cursor` and `cursor->pointer()` in the
    wrappers are the one mutable cursor pointer `ptr`; memory is `buf`;
  * `SBEPP_ASSERT` and `SBEPP_SIZE_CHECK` are enabled together, exactly when
    `view.endp` is `some _`; every sub-view carries the same end pointer;
  * template parameters: `U` (and `T` when there is no `U`) is a primitive type
    described by `sizeof`; with `U` present `T` is the value wrapper built from
    the `U` read (a value is its bytes); `Res` is a fixed-size field view type
    described by its `size_bytes`; `ResView` is a group view type in
    `*_group_view` (described by its dimension header `Dim`, or by the whole
    `Group` and the byte order when its `size_bytes` is asked for) and a data
    view type in `*_data_view` (described by `DataL` and the byte order);
    `Getter` is a callable whose result is a view at the address `getter`
    (the random-access position, see the header of Rt/Cursor.lean); `E`
    (byte order of a primitive) does not matter because values are raw bytes.
"""
import hashlib
import os
import re

from . import cxx
from .cxx import ExtractError
from .kernels import write_if_changed

HPP = 'sbepp/src/sbepp/sbepp.hpp'

CLASSES = [('cursor', 'C'), ('init_cursor_wrapper', 'I'), ('init_dont_move_cursor_wrapper', 'IDM'),
           ('dont_move_cursor_wrapper', 'DM'), ('skip_cursor_wrapper', 'S')]
METHODS = ['get_value', 'set_value', 'get_last_value', 'set_last_value', 'get_static_field_view',
           'get_last_static_field_view', 'get_first_group_view', 'get_first_data_view', 'get_group_view',
           'get_data_view']
# the wrappers that by design have no such member (the hand model says `noSuchMethod`)
ABSENT_OK = {('skip_cursor_wrapper', 'set_value'), ('skip_cursor_wrapper', 'set_last_value')}

LEAN_NS = 'Sbepp.Extracted.Cursor'

# ------------------------------------------------------------------ tokens

TOK = re.compile(r'''
    (?P<ws>\s+)
  | (?P<num>0[xX][0-9a-fA-F']+[uUlL]*|\d[\d']*[uUlL]*)
  | (?P<str>"(?:[^"\\]|\\.)*")
  | (?P<chr>'(?:[^'\\]|\\.)+')
  | (?P<id>[A-Za-z_][A-Za-z_0-9]*)
  | (?P<op><<=|>>=|<=>|->|\+\+|--|<<|>>|<=|>=|==|!=|&&|\|\||\+=|-=|\*=|/=|%=|&=|\|=|\^=|::|[-+*/%<>=!~&|^?:;,.(){}\[\]\#])
''', re.X)


def tokenize(text, base_line=1):
    """-> list of (kind, text, line)"""
    toks = []
    i = 0
    line = base_line
    while i < len(text):
        m = TOK.match(text, i)
        if not m:
            raise ExtractError('cannot tokenize at: %r' % text[i:i + 30])
        k = m.lastgroup
        if k != 'ws':
            toks.append((k, m.group(k), line))
        line += text.count('\n', i, m.end())
        i = m.end()
    return toks


def int_value(tok):
    m = re.fullmatch(r"(0[xX][0-9a-fA-F']+|\d[\d']*)([uUlL]*)", tok)
    digits = m.group(1).replace("'", '')
    if len(digits) > 1 and digits[0] == '0' and digits[1] not in 'xX':
        return int(digits, 8)
    return int(digits, 0)


# ------------------------------------------------------------------ declaration scanner

SPECIFIERS = {'SBEPP_CPP14_CONSTEXPR', 'SBEPP_CPP17_CONSTEXPR', 'SBEPP_CPP20_CONSTEXPR', 'SBEPP_CPP17_INLINE_VAR',
              'SBEPP_CPP17_NODISCARD', 'constexpr', 'inline', 'static', 'explicit', 'friend', 'virtual'}


def match_tok(toks, i, open_c, close_c):
    depth = 0
    while i < len(toks):
        v = toks[i][1]
        if toks[i][0] == 'op':
            if v == open_c:
                depth += 1
            elif v == close_c:
                depth -= 1
                if depth == 0:
                    return i
        i += 1
    raise ExtractError('unbalanced %s%s' % (open_c, close_c))


def match_angle(toks, i):
    """toks[i] is `<`; index of the matching `>` (parentheses are skipped as units)"""
    depth = 0
    while i < len(toks):
        k, v = toks[i][0], toks[i][1]
        if k == 'op':
            if v == '<':
                depth += 1
            elif v == '>':
                depth -= 1
                if depth == 0:
                    return i
            elif v == '>>':
                depth -= 2
                if depth <= 0:
                    return i
            elif v == '(':
                i = match_tok(toks, i, '(', ')')
            elif v in (';', '{', '}'):
                break
        i += 1
    raise ExtractError('unbalanced <>')


def split_top(toks, sep=','):
    """split a token list at top-level separators (nesting: () {} [] <>)"""
    out, cur, depth = [], [], 0
    for t in toks:
        if t[0] == 'op':
            if t[1] in '({[<':
                depth += 1
            elif t[1] in ')}]>':
                depth -= 1
            elif t[1] == '>>':
                depth -= 2
        if t[0] == 'op' and t[1] == sep and depth == 0:
            out.append(cur)
            cur = []
        else:
            cur.append(t)
    if cur or out:
        out.append(cur)
    return out


class Method:
    def __init__(self):
        self.name = None
        self.line = None
        self.tparams = []     # [(kind, name)]  kind: 'typename' | other spelling ('endian'); name may be None
        self.ret = None       # return type spelling (tokens joined by ' ')
        self.params = []      # [(type spelling, name|None, is_rvalue_ref)]
        self.body = None      # token list of the body (without the braces)
        self.text = None      # normalised source text (for the comment)


def scan_class(toks):
    """toks: tokens of a class body.  Returns (methods: [Method], members: [(type spelling, name)])"""
    methods, members = [], []
    i = 0
    n = len(toks)
    while i < n:
        k, v, _ = toks[i]
        if k == 'id' and v in ('public', 'private', 'protected') and i + 1 < n and toks[i + 1][1] == ':':
            i += 2
            continue
        # one declaration: up to `;` at depth 0 or up to the end of a function body
        start = i
        j = i
        body_rng = None
        while j < n:
            kk, vv, _ = toks[j]
            if kk == 'op' and vv == '(':
                j = match_tok(toks, j, '(', ')') + 1
                continue
            if kk == 'op' and vv == '[':
                j = match_tok(toks, j, '[', ']') + 1
                continue
            if kk == 'op' and vv == '<' and j > start and toks[j - 1][1] == 'template':
                j = match_angle(toks, j) + 1
                continue
            if kk == 'op' and vv == '{':
                e = match_tok(toks, j, '{', '}')
                prev = toks[j - 1] if j > start else ('', '', 0)
                is_init = prev[0] == 'id' and prev[1] not in ('noexcept', 'const', 'override', 'final') \
                    or (prev[0] == 'op' and prev[1] in ('=', '>'))
                if is_init:
                    j = e + 1
                    continue
                body_rng = (j + 1, e)
                j = e + 1
                break
            if kk == 'op' and vv == ';':
                j += 1
                break
            j += 1
        decl = toks[start:j]
        i = j
        if body_rng is None:
            m = member_of(decl)
            if m:
                members.append(m)
            continue
        hdr = toks[start:body_rng[0] - 1]
        try:
            meth = parse_header(hdr)
        except ExtractError:
            meth = None
        if meth is None:
            continue
        meth.body = toks[body_rng[0]:body_rng[1]]
        meth.text = join_toks(toks[start:body_rng[1] + 1])
        methods.append(meth)
    return methods, members


def join_toks(toks):
    """source text of a token list, blanks only where two words meet and after `,` / `;`"""
    out = []
    prev = None
    for t in toks:
        if prev is not None:
            word = lambda x: x[0] in ('id', 'num', 'str', 'chr')
            if (word(prev) and word(t)) or prev[1] in (',', ';') or (prev[1] == '{' and t[1] != '}') \
                    or (t[1] == '}' and prev[1] != '{') or t[1] == '{' and word(prev) and prev[1] in ('noexcept', 'const'):
                out.append(' ')
        out.append(t[1])
        prev = t
    return ''.join(out)


def member_of(decl):
    """`Byte* ptr{};` / `sbepp::cursor<Byte>* cursor{};` -> (type spelling, name)"""
    ts = [t for t in decl if not (t[0] == 'op' and t[1] == ';')]
    if not ts or ts[0][1] in ('using', 'template', 'friend', 'static_assert', 'typedef'):
        return None
    if any(t[0] == 'op' and t[1] == '(' for t in ts):
        return None
    # strip a trailing initialiser
    for idx, t in enumerate(ts):
        if t[0] == 'op' and t[1] in ('{', '='):
            ts = ts[:idx]
            break
    if len(ts) < 2 or ts[-1][0] != 'id':
        return None
    return ''.join(t[1] for t in ts[:-1]), ts[-1][1]


def parse_header(hdr):
    """tokens of a function definition before its body -> Method (without body) or None"""
    m = Method()
    i = 0
    if hdr and hdr[0][1] == 'template':
        if hdr[1][1] != '<':
            return None
        e = match_angle(hdr, 1)
        for part in split_top(hdr[2:e]):
            if not part:
                continue
            kind = part[0][1]
            name = None
            # `typename X`, `endian E`, `typename = default`, `typename X = default`
            rest = part[1:]
            if rest and rest[0][0] == 'id':
                name = rest[0][1]
            m.tparams.append(('typename' if kind in ('typename', 'class') else kind, name))
        i = e + 1
    # the parameter list: the first top-level `(` whose preceding token is an identifier / operator name
    j = i
    while j < len(hdr) and not (hdr[j][0] == 'op' and hdr[j][1] == '('):
        if hdr[j][0] == 'op' and hdr[j][1] == '<':
            j = match_angle(hdr, j)
        j += 1
    if j >= len(hdr) or j == i:
        return None
    close = match_tok(hdr, j, '(', ')')
    pre = hdr[i:j]
    # name: last identifier (operators are not targets)
    if pre[-1][0] != 'id' or any(t[1] == 'operator' for t in pre):
        return None
    m.name = pre[-1][1]
    m.line = pre[-1][2]
    m.ret = ' '.join(t[1] for t in pre[:-1] if t[1] not in SPECIFIERS)
    for part in split_top(hdr[j + 1:close]):
        ts = [t for t in part if t[1] != 'const']
        if not ts:
            continue
        for idx, t in enumerate(ts):      # default argument
            if t[0] == 'op' and t[1] == '=':
                ts = ts[:idx]
                break
        name = None
        if len(ts) >= 2 and ts[-1][0] == 'id' and ts[-2][1] != '::':
            name = ts[-1][1]
            ts = ts[:-1]
        rref = any(t[1] == '&&' for t in ts)
        ty = ''.join(t[1] for t in ts if t[1] not in ('&&', '&'))
        m.params.append((ty, name, rref))
    return m


# ------------------------------------------------------------------ statement / expression parser

BIN = {
    '||': 1, '&&': 2, '|': 3, '^': 4, '&': 5, '==': 6, '!=': 6,
    '<': 7, '<=': 7, '>': 7, '>=': 7, '<<': 8, '>>': 8, '+': 9, '-': 9, '*': 10, '/': 10, '%': 10,
}
ASSIGN_OPS = {'=', '+=', '-=', '*=', '/=', '%=', '&=', '|=', '^=', '<<=', '>>='}


class Parser:
    """tokens -> AST (tuples).
    Expressions:
      ('num', n) ('str', s) ('bool', b) ('nullptr',) ('this',)
      ('name', 'a::b', targs|None)            targs: list of type spellings
      ('call', fn, [args]) ('member', obj, name, arrow, targs|None) ('index', obj, i)
      ('un', op, e) ('post', op, e) ('bin', op, l, r) ('assign', op, l, r) ('cond', c, a, b)
      ('cast', type, e) ('sizeof', type) ('brace', type|None, [args])
    Statements:
      ('assert', e) ('sizecheck', [e, e, e, e]) ('decl', type, name, init-expr) ('expr', e)
      ('if', c, [then], [else]|None) ('return', e|None) ('block', [stmts])"""

    def __init__(self, toks):
        self.t = toks
        self.i = 0

    def peek(self, k=0):
        return self.t[self.i + k] if self.i + k < len(self.t) else ('eof', '', 0)

    def next(self):
        tok = self.peek()
        self.i += 1
        return tok

    def at(self, val, k=0):
        p = self.peek(k)
        return p[1] == val and p[0] in ('op', 'id')

    def expect(self, val):
        tok = self.next()
        if tok[1] != val or tok[0] not in ('op', 'id'):
            raise ExtractError('expected %r, got %r near: %s' % (
                val, tok[1], ' '.join(x[1] for x in self.t[max(0, self.i - 8):self.i + 4])))

    # ---- names and types
    def qualified(self):
        parts = []
        if self.at('::'):
            self.next()
        while True:
            k, v, _ = self.peek()
            if k != 'id':
                raise ExtractError('identifier expected, got %r' % v)
            self.next()
            parts.append(v)
            if self.at('::') and self.peek(1)[0] == 'id':
                self.next()
                continue
            return '::'.join(parts)

    def looks_like_targs(self):
        """at `<`: is this an explicit template argument list followed by `(` or `{`?"""
        if not self.at('<'):
            return False
        depth = 0
        j = self.i
        while j < len(self.t):
            k, v, _ = self.t[j]
            if k == 'op' and v == '<':
                depth += 1
            elif k == 'op' and v == '>':
                depth -= 1
                if depth == 0:
                    nxt = self.t[j + 1] if j + 1 < len(self.t) else ('eof', '', 0)
                    return nxt[1] in ('(', '{') and nxt[0] == 'op'
            elif k == 'id' or (k == 'op' and v in (',', '::', '*', '&')) or k == 'num':
                pass
            else:
                return False
            j += 1
        return False

    def targs(self):
        self.expect('<')
        out, cur, depth = [], [], 1
        while True:
            k, v, _ = self.next()
            if k == 'eof':
                raise ExtractError('unterminated template argument list')
            if k == 'op' and v == '<':
                depth += 1
            elif k == 'op' and v == '>':
                depth -= 1
                if depth == 0:
                    break
            if k == 'op' and v == ',' and depth == 1:
                out.append(''.join(cur))
                cur = []
            else:
                cur.append(v)
        if cur:
            out.append(''.join(cur))
        return [strip_ns(a) for a in out]

    # ---- statements
    def statements(self, until=None):
        out = []
        while self.peek()[0] != 'eof' and not (until and self.at(until)):
            s = self.statement()
            if s is not None:
                out.append(s)
        return out

    def block_or_stmt(self):
        if self.at('{'):
            self.next()
            b = self.statements('}')
            self.expect('}')
            return b
        s = self.statement()
        return [s] if s is not None else []

    def statement(self):
        k, v, _ = self.peek()
        if k == 'op' and v == ';':
            self.next()
            return None
        if k == 'op' and v == '{':
            self.next()
            b = self.statements('}')
            self.expect('}')
            return ('block', b)
        if k == 'id' and v == 'SBEPP_ASSERT':
            self.next()
            self.expect('(')
            e = self.expr()
            self.expect(')')
            self.expect(';')
            return ('assert', e)
        if k == 'id' and v == 'SBEPP_SIZE_CHECK':
            self.next()
            self.expect('(')
            args = self.args(')')
            self.expect(';')
            if len(args) != 4:
                raise ExtractError('SBEPP_SIZE_CHECK with %d arguments' % len(args))
            return ('sizecheck', args)
        if k == 'id' and v == 'return':
            self.next()
            if self.at(';'):
                self.next()
                return ('return', None)
            if self.at('{'):
                self.next()
                e = ('brace', None, self.args('}'))
            else:
                e = self.expr()
            self.expect(';')
            return ('return', e)
        if k == 'id' and v == 'if':
            self.next()
            self.expect('(')
            c = self.expr()
            self.expect(')')
            th = self.block_or_stmt()
            el = None
            if self.at('else'):
                self.next()
                el = self.block_or_stmt()
            return ('if', c, th, el)
        if k == 'id' and v in ('for', 'while', 'do', 'switch', 'goto', 'try', 'throw'):
            raise ExtractError('`%s` statements do not occur in the cursor classes and are not translated' % v)
        if k == 'id' and v in ('using', 'typedef', 'static_assert'):
            raise ExtractError('`%s` inside a method body is not translated' % v)
        d = self.try_decl()
        if d is not None:
            return d
        e = self.expr()
        self.expect(';')
        return ('expr', e)

    def try_decl(self):
        """[const] (auto | Type) name (= e | {args} | (args)) ;"""
        save = self.i
        while self.at('const') or self.at('constexpr'):
            self.next()
        if self.peek()[0] != 'id':
            self.i = save
            return None
        try:
            ty = self.qualified()
            while self.at('*') or self.at('&') or self.at('const'):
                ty += self.next()[1]
        except ExtractError:
            self.i = save
            return None
        k, v, _ = self.peek()
        nxt = self.peek(1)
        if k != 'id' or not (nxt[0] == 'op' and nxt[1] in ('=', '{', '(', ';')):
            self.i = save
            return None
        name = self.next()[1]
        if self.at('='):
            self.next()
            init = self.expr()
        elif self.at('{'):
            self.next()
            init = ('brace', strip_ns(ty), self.args('}'))
        elif self.at('('):
            self.next()
            init = ('brace', strip_ns(ty), self.args(')'))
        else:
            raise ExtractError('declaration of %s without initialiser' % name)
        self.expect(';')
        return ('decl', strip_ns(ty), name, init)

    def args(self, close):
        out = []
        if self.at(close):
            self.next()
            return out
        while True:
            out.append(self.expr())
            if self.at(','):
                self.next()
                continue
            self.expect(close)
            return out

    # ---- expressions
    def expr(self):
        lhs = self.ternary()
        k, v, _ = self.peek()
        if k == 'op' and v in ASSIGN_OPS:
            self.next()
            rhs = self.expr()
            return ('assign', v, lhs, rhs)
        return lhs

    def ternary(self):
        c = self.binary(1)
        if self.at('?'):
            self.next()
            a = self.expr()
            self.expect(':')
            b = self.expr()
            return ('cond', c, a, b)
        return c

    def binary(self, minp):
        lhs = self.unary()
        while True:
            k, v, _ = self.peek()
            if k != 'op' or v not in BIN or BIN[v] < minp:
                return lhs
            self.next()
            rhs = self.binary(BIN[v] + 1)
            lhs = ('bin', v, lhs, rhs)

    def unary(self):
        k, v, _ = self.peek()
        if k == 'op' and v in ('!', '~', '-', '+', '*', '&', '++', '--'):
            self.next()
            return ('un', v, self.unary())
        if k == 'id' and v == 'sizeof':
            self.next()
            self.expect('(')
            parts = []
            depth = 0
            while True:
                kk, vv, _ = self.next()
                if kk == 'eof':
                    raise ExtractError('unterminated sizeof')
                if kk == 'op' and vv == '(':
                    depth += 1
                if kk == 'op' and vv == ')':
                    if depth == 0:
                        break
                    depth -= 1
                parts.append(vv)
            return ('sizeof', strip_ns(''.join(parts)))
        return self.postfix(self.primary())

    def primary(self):
        k, v, _ = self.next()
        if k == 'num':
            return ('num', int_value(v))
        if k == 'str':
            return ('str', v)
        if k == 'op' and v == '(':
            e = self.expr()
            self.expect(')')
            return e
        if k == 'op' and v == '::':
            self.i -= 1
        elif k != 'id':
            raise ExtractError('unexpected token %r near: %s' % (
                v, ' '.join(x[1] for x in self.t[max(0, self.i - 8):self.i + 4])))
        if v in ('true', 'false'):
            return ('bool', v == 'true')
        if v == 'nullptr':
            return ('nullptr',)
        if v == 'this':
            return ('this',)
        if v in ('static_cast', 'reinterpret_cast', 'const_cast'):
            ta = self.targs()
            self.expect('(')
            e = self.expr()
            self.expect(')')
            return ('cast', ta[0] if ta else '?', e)
        if k == 'id':
            self.i -= 1
        name = self.qualified()
        ta = None
        if self.looks_like_targs():
            ta = self.targs()
        if self.at('{'):
            self.next()
            return ('brace', strip_ns(name), self.args('}'))
        return ('name', name, ta)

    def postfix(self, e):
        while True:
            if self.at('('):
                self.next()
                e = ('call', e, self.args(')'))
            elif self.at('['):
                self.next()
                i = self.expr()
                self.expect(']')
                e = ('index', e, i)
            elif self.at('.') or self.at('->'):
                arrow = self.next()[1] == '->'
                if self.at('template'):
                    self.next()
                k, v, _ = self.next()
                if k != 'id':
                    raise ExtractError('member name expected after . / ->')
                ta = self.targs() if self.looks_like_targs() else None
                e = ('member', e, v, arrow, ta)
            elif self.at('++') or self.at('--'):
                e = ('post', self.next()[1], e)
            else:
                return e


def strip_ns(name):
    """`detail::addressof_tag`, `sbepp::detail::x`, `::sbepp::x` -> `x`; `std::size_t` stays"""
    name = name.lstrip(':')
    while True:
        for p in ('sbepp::', 'detail::'):
            if name.startswith(p):
                name = name[len(p):]
                break
        else:
            return name


# ------------------------------------------------------------------ typing and rendering

LEAN_RESERVED = {'end', 'from', 'at', 'do', 'then', 'fun', 'let', 'match', 'with', 'in', 'if', 'else', 'return', 'mut',
                 'for', 'open', 'def', 'theorem', 'have', 'show', 'by', 'where', 'namespace', 'section', 'import',
                 'instance', 'structure', 'class', 'inductive', 'variable', 'universe', 'example', 'macro', 'syntax',
                 'local', 'private', 'protected', 'partial', 'unsafe', 'deriving', 'extends', 'using', 'calc', 'nomatch',
                 'Type', 'Prop', 'Sort', 'some', 'none', 'true', 'false', 'pure', 'bind', 'ptr', 'buf', 'this',
                 'sizeof_T', 'sizeof_U', 'Res_size_bytes', 'ResView_dim', 'ResView_group', 'ResView_data', 'ResView_bo'}

TAGS = {'addressof_tag', 'end_ptr_tag', 'get_level_tag', 'get_block_length_tag', 'size_bytes_tag', 'get_header_tag'}
SIZE_TYPES = {'std::size_t', 'size_t', 'std::uint64_t', 'std::uint32_t'}


class NeedGroup(Exception):
    """a group view's own `size_bytes` is used: the `ResView` descriptor must be the whole `Group`"""


class Val:
    """a typed Lean term.  ty: 'ptr' 'size' 'bool' 'endptr' 'lview' ('sub', fam, cxxtype) 'hdr' ('bytes', cxxtype)
    'getter' ('tag', name) 'str' 'void' 'step'.  mon: the term has type `Out τ` (an action), to be bound."""

    def __init__(self, ty, term, mon=False, atomic=False):
        self.ty = ty
        self.term = term
        self.mon = mon
        self.atomic = atomic

    def use(self):
        """the term as a pure sub-term inside a `do` block"""
        if self.mon:
            return '(← %s)' % self.term
        return self.term if self.atomic else '(%s)' % self.term


def fam_of(method_name):
    if 'group' in method_name:
        return 'group'
    if 'data' in method_name:
        return 'data'
    if 'static_field' in method_name:
        return 'static'
    return None


class Sig:
    """Lean signature of a translated method, derived from its template header and parameter list"""

    def __init__(self, cls, meth, group_mode):
        self.cls = cls
        self.meth = meth
        self.group_mode = group_mode          # 'dim' | 'group' (only meaningful for *_group_view)
        self.roles = {}                       # template parameter name -> role
        self.desc = []                        # [(lean name, lean type, template parameter name)]
        self.binders = []                     # [(lean name, lean type)] in order
        self.cparams = []                     # [(role, lean name, cxx type)] of the C++ parameters in order
        self.ret = None                       # 'void' | ('bytes', T) | ('sub', fam, T)
        self.needs_bo = False
        fam = fam_of(meth.name)
        tnames = [n for k, n in meth.tparams if k == 'typename' and n]
        # roles from the function parameters
        for idx, (ty, name, rref) in enumerate(meth.params):
            if idx == 0:
                if ty not in tnames:
                    raise ExtractError('first parameter is not a view of template type: %s' % ty)
                self.roles[ty] = 'lview'
            elif rref and ty in tnames:
                self.roles[ty] = 'getter'
        for k, n in meth.tparams:
            if n is None or n in self.roles:
                continue
            if k != 'typename':
                self.roles[n] = 'ignored'     # `endian E`
            elif n == 'U':
                self.roles[n] = 'prim'
            elif n == 'T':
                self.roles[n] = 'value' if 'U' in tnames else 'prim'
            elif n == 'Res':
                self.roles[n] = ('sub', 'static')
            elif n == 'ResView':
                if fam not in ('group', 'data'):
                    raise ExtractError('ResView in a method that is neither *_group_view nor *_data_view')
                self.roles[n] = ('sub', fam)
            else:
                self.roles[n] = 'unknown'
        # descriptors, in template header order
        for k, n in meth.tparams:
            r = self.roles.get(n)
            if r == 'prim':
                self.desc.append(('sizeof_%s' % n, 'Nat', n))
            elif r == ('sub', 'static'):
                self.desc.append(('%s_size_bytes' % n, 'Nat', n))
            elif r == ('sub', 'group'):
                if group_mode == 'group':
                    self.needs_bo = True
                    self.desc.append(('%s_group' % n, 'Group', n))
                else:
                    self.desc.append(('%s_dim' % n, 'Dim', n))
            elif r == ('sub', 'data'):
                self.needs_bo = True
                self.desc.append(('%s_data' % n, 'DataL', n))
        # C++ parameters
        used = set()
        values = []
        mids = []
        view_name = None
        for idx, (ty, name, rref) in enumerate(meth.params):
            role = self.roles.get(ty)
            if idx == 0:
                # the level view is a Lean parameter even when the C++ parameter is unnamed
                # (`view.endp` is also the switch of the checks)
                lname = lean_ident(name, used) if name else 'view'
                view_name = lname
                self.cparams.append(('lview', lname, ty))
            elif ty in SIZE_TYPES:
                lname = lean_ident(name, used) if name else '_size%d' % idx
                mids.append((lname, 'Nat'))
                self.cparams.append(('size', lname, ty))
            elif role == 'getter':
                lname = lean_ident(name, used) if name else '_getter'
                mids.append((lname, 'Nat'))
                self.cparams.append(('getter', lname, ty))
            elif role in ('prim', 'value'):
                lname = lean_ident(name, used) if name else '_value%d' % idx
                values.append((lname, 'List Nat'))
                self.cparams.append((('bytes', ty), lname, ty))
            else:
                raise ExtractError('parameter %d of type %s: no model type' % (idx, ty))
            used.add(lname)
        self.view = view_name
        self.binders = ([('ResView_bo', 'ByteOrder')] if self.needs_bo else []) \
            + [(view_name, 'LView'), ('buf', 'List Nat'), ('ptr', 'Option Nat')] + mids \
            + [(n, t) for n, t, _ in self.desc] + values
        # return type
        rt = strip_ns(meth.ret.replace(' ', ''))
        if rt == 'void':
            self.ret = 'void'
        else:
            r = self.roles.get(rt)
            if r in ('value', 'prim'):
                self.ret = ('bytes', rt)
            elif isinstance(r, tuple) and r[0] == 'sub':
                self.ret = ('sub', r[1], rt)
            else:
                raise ExtractError('return type %s: no model type' % meth.ret)

    def desc_for(self, tname):
        for n, t, tn in self.desc:
            if tn == tname:
                return n, t
        return None


def lean_ident(name, used=()):
    n = name
    while n in LEAN_RESERVED or n in used:
        n += '_'
    return n


class Translator:
    def __init__(self, cls_name, ns, meth, members, sig, lookup):
        self.cls = cls_name
        self.ns = ns
        self.m = meth
        self.sig = sig
        self.lookup = lookup          # (class name, method name) -> Sig   (translates on demand)
        self.ptr_member = None        # `Byte* ptr` of class cursor
        self.cursor_member = None     # `sbepp::cursor<Byte>* cursor` of the wrappers
        for ty, name in members:
            t = strip_ns(ty)
            if t == 'Byte*':
                self.ptr_member = name
            elif re.fullmatch(r'cursor<Byte>\*', t):
                self.cursor_member = name
        self.env = {}                 # C++ local / parameter name -> Val
        for (ty, pname, rref), (role, lname, cty) in zip(meth.params, sig.cparams):
            if pname:
                self.env[pname] = Val(role, lname, atomic=True)
        self.used = {b[0] for b in sig.binders}
        self.lines = []
        self.mut = set()              # state variables assigned in the body
        self.returned = False

    # ---- helpers
    def endp(self):
        return '%s.endp' % self.sig.view

    def group_dim(self, tname):
        d = self.sig.desc_for(tname)
        if d is None:
            raise ExtractError('no descriptor for view type %s' % tname)
        return d[0] if d[1] == 'Dim' else '%s.dim' % d[0]

    def is_state(self, e):
        """is the expression the cursor pointer as an lvalue?"""
        if e[0] == 'name' and e[2] is None and e[1] == self.ptr_member and e[1] not in self.env:
            return True
        if e[0] == 'member' and e[1] == ('this',) and e[3] and e[2] == self.ptr_member:
            return True
        if e[0] == 'call' and not e[2] and e[1][0] == 'member' and e[1][2] == 'pointer' and e[1][3] \
                and e[1][1][0] == 'name' and e[1][1][1] == self.cursor_member and self.cursor_member not in self.env:
            return True
        return False

    # ---- expressions
    def ex(self, e):
        k = e[0]
        if self.is_state(e):
            return Val('ptr', 'ptr', atomic=True)
        if k == 'num':
            return Val('size', str(e[1]), atomic=True)
        if k == 'str':
            return Val('str', 'true', atomic=True)
        if k == 'bool':
            return Val('bool', 'true' if e[1] else 'false', atomic=True)
        if k == 'nullptr':
            return Val('ptr', 'none', atomic=True)
        if k == 'name':
            if e[2] is None and e[1] in self.env:
                return self.env[e[1]]
            raise ExtractError('unknown name %s' % e[1])
        if k == 'brace':
            return self.brace(e)
        if k == 'sizeof':
            r = self.sig.roles.get(e[1])
            d = self.sig.desc_for(e[1])
            if r != 'prim' or d is None:
                raise ExtractError('sizeof(%s): the type has no size descriptor in this method' % e[1])
            return Val('size', d[0], atomic=True)
        if k == 'cast':
            v = self.ex(e[2])
            if e[1] in SIZE_TYPES and v.ty == 'size':
                return v
            raise ExtractError('cast to %s of a %s value is not translated' % (e[1], v.ty))
        if k == 'un':
            if e[1] == '!':
                v = self.ex(e[2])
                if v.ty != 'bool':
                    raise ExtractError('! applied to a %s value' % (v.ty,))
                return Val('bool', '!%s' % v.use())
            raise ExtractError('unary %s is not translated' % e[1])
        if k == 'bin':
            return self.binop(e)
        if k == 'call':
            return self.call(e)
        raise ExtractError('expression form %s is not translated' % k)

    def binop(self, e):
        op = e[1]
        a, b = self.ex(e[2]), self.ex(e[3])
        if op in ('&&', '||'):
            # `cond && "message"`: a string literal is a non-null pointer
            if b.ty == 'str' and op == '&&':
                if a.ty != 'bool':
                    raise ExtractError('&& "message" on a %s value' % (a.ty,))
                return a
            if a.ty != 'bool' or b.ty != 'bool':
                raise ExtractError('%s on %s and %s' % (op, a.ty, b.ty))
            return Val('bool', '%s %s %s' % (a.use(), op, b.use()))
        if op == '+':
            if a.ty == 'ptr' and b.ty == 'size':
                return Val('ptr', 'padd %s %s' % (a.use(), b.use()))
            if a.ty == 'size' and b.ty == 'ptr':
                return Val('ptr', 'padd %s %s' % (b.use(), a.use()))
            if a.ty == 'size' and b.ty == 'size':
                return Val('size', '%s + %s' % (a.use(), b.use()))
        if op == '-':
            if a.ty == 'ptr' and b.ty == 'size':
                return Val('ptr', 'psub %s %s' % (a.use(), b.use()))
            if a.ty == 'size' and b.ty == 'size':
                return Val('size', '%s - %s' % (a.use(), b.use()))
        if op == '*' and a.ty == 'size' and b.ty == 'size':
            return Val('size', '%s * %s' % (a.use(), b.use()))
        if op in ('==', '!='):
            if a.ty == 'ptr' and b.ty == 'ptr':
                t = 'peq %s %s' % (a.use(), b.use())
            elif a.ty == 'size' and b.ty == 'size':
                t = '%s == %s' % (a.use(), b.use())
            else:
                raise ExtractError('%s on %s and %s' % (op, a.ty, b.ty))
            return Val('bool', t if op == '==' else '!(%s)' % t)
        if op in ('<', '<=', '>', '>=') and a.ty == 'size' and b.ty == 'size':
            return Val('bool', 'decide (%s %s %s)' % (a.use(), {'<': '<', '<=': '≤', '>': '>', '>=': '≥'}[op], b.use()))
        raise ExtractError('operator %s on %s and %s is not translated' % (op, a.ty, b.ty))

    def brace(self, e):
        ty, args = e[1], e[2]
        if ty in TAGS and not args:
            return Val(('tag', ty), ty, atomic=True)
        if ty is None:
            raise ExtractError('untyped braced initialiser outside return')
        r = self.sig.roles.get(ty)
        if r in ('value', 'prim'):
            # T{bytes}: the value wrapper built from the primitive read
            if len(args) != 1:
                raise ExtractError('%s{...} with %d arguments' % (ty, len(args)))
            v = self.ex(args[0])
            if not (isinstance(v.ty, tuple) and v.ty[0] == 'bytes'):
                raise ExtractError('%s{...} of a %s value' % (ty, v.ty))
            return Val(('bytes', ty), v.term, v.mon, v.atomic)
        if isinstance(r, tuple) and r[0] == 'sub':
            return self.mk_view(r[1], ty, args)
        raise ExtractError('construction of %s is not translated' % ty)

    def mk_view(self, fam, ty, args):
        """View{p, end}"""
        if len(args) != 2:
            raise ExtractError('view constructed from %d arguments' % len(args))
        p, en = self.ex(args[0]), self.ex(args[1])
        if p.ty != 'ptr' or en.ty != 'endptr':
            raise ExtractError('view constructed from (%s, %s), expected (pointer, end pointer)' % (p.ty, en.ty))
        return Val(('sub', fam, ty), 'mkView %s' % p.use(), mon=True)

    def call(self, e):
        fn, args = e[1], e[2]
        # free functions with explicit template arguments
        if fn[0] == 'name':
            name = strip_ns(fn[1])
            if name == 'get_primitive':
                ta = fn[2] or []
                if len(ta) != 2 or len(args) != 1:
                    raise ExtractError('get_primitive<%s>(%d args)' % (','.join(ta), len(args)))
                d = self.sig.desc_for(ta[0])
                if self.sig.roles.get(ta[0]) != 'prim' or d is None:
                    raise ExtractError('get_primitive<%s>: the type has no size descriptor' % ta[0])
                self.endian_arg(ta[1], 'get_primitive')
                p = self.ex(args[0])
                if p.ty != 'ptr':
                    raise ExtractError('get_primitive of a %s value' % (p.ty,))
                return Val(('bytes', ta[0]), 'getPrimitive buf %s %s' % (p.use(), d[0]), mon=True)
            if name == 'set_primitive':
                ta = fn[2] or []
                if len(args) != 2 or len(ta) != 1:
                    raise ExtractError('set_primitive<%s>(%d args)' % (','.join(ta), len(args)))
                self.endian_arg(ta[0], 'set_primitive')
                p, v = self.ex(args[0]), self.ex(args[1])
                if p.ty != 'ptr' or not (isinstance(v.ty, tuple) and v.ty[0] == 'bytes'):
                    raise ExtractError('set_primitive(%s, %s)' % (p.ty, v.ty))
                return Val('write', 'setPrimitive buf %s %s' % (p.use(), v.use()), mon=True)
            if name in METHODS and name not in self.env:
                return self.forward(self.cls, name, fn[2], args)
            if name not in self.env:
                raise ExtractError('call of unknown function %s' % fn[1])
        if fn[0] == 'member' and fn[1][0] == 'name' and fn[1][1] == self.cursor_member \
                and self.cursor_member not in self.env and fn[3] and fn[2] in METHODS:
            return self.forward('cursor', fn[2], fn[4], args)
        if fn[0] == 'member' and fn[1] == ('this',) and fn[3] and fn[2] in METHODS:
            return self.forward(self.cls, fn[2], fn[4], args)
        f = self.ex(fn)
        if f.ty == 'getter':
            if args:
                raise ExtractError('getter called with arguments')
            fam = fam_of(self.m.name)
            if fam not in ('group', 'data'):
                raise ExtractError('getter in a method that is neither *_group_view nor *_data_view')
            # the callable returns a view of the member at the random-access position
            tname = None
            for n, r in self.sig.roles.items():
                if r == ('sub', fam):
                    tname = n
            return Val(('sub', fam, tname), f.term, atomic=True)
        if len(args) == 1:
            t = self.ex(args[0])
            if isinstance(t.ty, tuple) and t.ty[0] == 'tag':
                return self.tag_call(f, t.ty[1])
        raise ExtractError('call on a %s value is not translated' % (f.ty,))

    def endian_arg(self, ta, what):
        """values are raw bytes, so the byte order of a primitive access is not modelled: the translation is only
        valid when the access uses the byte order the caller passed in (the method's `endian` template parameter)"""
        if self.sig.roles.get(ta) != 'ignored' or ('endian', ta) not in self.m.tparams:
            raise ExtractError('%s: byte order argument %s is not the endian template parameter of the method' % (what, ta))

    def tag_call(self, f, tag):
        if f.ty == 'lview':
            if tag == 'addressof_tag':
                return Val('ptr', 'some %s.addr' % f.term)
            if tag == 'get_level_tag':
                return Val('ptr', 'some %s.lvl' % f.term)
            if tag == 'get_block_length_tag':
                return Val('size', '%s.wbl' % f.term, atomic=True)
            if tag == 'end_ptr_tag':
                return Val('endptr', '%s.endp' % f.term, atomic=True)
        elif isinstance(f.ty, tuple) and f.ty[0] == 'sub':
            fam, tname = f.ty[1], f.ty[2]
            if tag == 'addressof_tag':
                return Val('ptr', 'some %s' % f.use())
            if tag == 'end_ptr_tag':
                return Val('endptr', self.endp(), atomic=True)
            if tag == 'size_bytes_tag':
                d = self.sig.desc_for(tname)
                if d is None:
                    raise ExtractError('no descriptor for view type %s' % tname)
                if fam == 'static':
                    return Val('size', d[0], atomic=True)
                if fam == 'data':
                    return Val('size', 'dataSizeBytes ResView_bo buf %s %s %s' % (self.endp(), d[0], f.use()), mon=True)
                if fam == 'group':
                    if d[1] != 'Group':
                        raise NeedGroup()
                    return Val('size', 'groupSizeBytes ResView_bo buf %s %s %s' % (self.endp(), d[0], f.use()), mon=True)
            if tag == 'get_header_tag' and fam == 'group':
                return Val(('hdr', tname), 'groupHeader %s %s %s' % (self.endp(), self.group_dim(tname), f.use()), mon=True)
        elif isinstance(f.ty, tuple) and f.ty[0] == 'hdr':
            if tag == 'size_bytes_tag':
                return Val('size', 'headerSizeBytes %s %s' % (self.group_dim(f.ty[1]), f.use()))
        raise ExtractError('%s applied to a %s value is not translated' % (tag, f.ty if isinstance(f.ty, str) else f.ty[0]))

    def forward(self, cls, name, targs, args):
        """`return get_value<T, U, E>(view, offset, absolute_offset)`, `cursor->template get_first_group_view<ResView>(view)`:
        a call of another translated method on the same cursor state; only in tail position"""
        callee_sig, callee = self.lookup(cls, name, self.sig.group_mode)
        # bind the callee's template parameters: explicit arguments by position, the rest deduced from the arguments
        bind = {}
        cparams = [(k, n) for k, n in callee.tparams]
        for idx, ta in enumerate(targs or []):
            if idx >= len(cparams):
                raise ExtractError('too many template arguments for %s' % name)
            bind[cparams[idx][1]] = ta
        if len(args) != len(callee.params):
            raise ExtractError('%s called with %d arguments, takes %d' % (name, len(args), len(callee.params)))
        vals = [self.ex(a) for a in args]
        for (pty, pname, rref), v in zip(callee.params, vals):
            if pty in [n for k, n in callee.tparams]:
                if v.ty == 'lview':
                    got = [ty for (ty, nm, rr) in self.m.params[:1]][0]
                elif v.ty == 'getter':
                    got = [ty for (ty, nm, rr) in self.m.params if self.sig.roles.get(ty) == 'getter'][0]
                elif isinstance(v.ty, tuple) and v.ty[0] == 'bytes':
                    got = v.ty[1]
                else:
                    raise ExtractError('argument of type %s for template parameter %s' % (v.ty, pty))
                if pty in bind and bind[pty] != got:
                    raise ExtractError('template parameter %s bound to both %s and %s' % (pty, bind[pty], got))
                bind[pty] = got
        for k, n in callee.tparams:
            if k != 'typename' and n is not None:
                # non-type parameter (`endian E`): must be handed on unchanged
                src = bind.get(n)
                if src is None or (k, src) not in self.m.tparams:
                    raise ExtractError('%s: %s parameter %s is not the caller\'s own %s parameter' % (name, k, n, k))
        out = []
        for lname, lty in callee_sig.binders:
            if lname == 'ResView_bo':
                if not self.sig.needs_bo:
                    raise NeedGroup()
                out.append('ResView_bo')
            elif lname == 'buf' or lname == 'ptr':
                out.append(lname)
            else:
                out.append(None)
        # positional: C++ parameters
        idx_of = {l: i for i, (l, t) in enumerate(callee_sig.binders)}
        for (role, lname, cty), v in zip(callee_sig.cparams, vals):
            want = role if isinstance(role, str) else role[0]
            have = v.ty if isinstance(v.ty, str) else v.ty[0]
            if want != have:
                raise ExtractError('%s: argument for %s is a %s value, expected %s' % (name, lname, have, want))
            out[idx_of[lname]] = v.use()
        # descriptors of the callee's template parameters
        for lname, lty, tn in callee_sig.desc:
            if tn not in bind:
                raise ExtractError('%s: template parameter %s is not determined' % (name, tn))
            src = bind[tn]
            if self.sig.roles.get(src) != callee_sig.roles.get(tn):
                raise ExtractError('%s: template argument %s for %s has a different kind' % (name, src, tn))
            d = self.sig.desc_for(src)
            if d is None:
                raise ExtractError('%s: template argument %s has no descriptor here' % (name, src))
            if lty == d[1]:
                out[idx_of[lname]] = d[0]
            elif lty == 'Dim' and d[1] == 'Group':
                out[idx_of[lname]] = '%s.dim' % d[0]
            else:
                raise NeedGroup()
        if any(o is None for o in out):
            raise ExtractError('%s: incomplete argument list' % name)
        if callee_sig.ret != self.sig.ret and not (callee_sig.ret == 'void' and self.sig.ret == 'void'):
            # value/view kinds must agree (the names of the template parameters may differ)
            a = callee_sig.ret if isinstance(callee_sig.ret, str) else callee_sig.ret[:-1]
            b = self.sig.ret if isinstance(self.sig.ret, str) else self.sig.ret[:-1]
            if a != b:
                raise ExtractError('%s returns %s, caller returns %s' % (name, a, b))
        qual = '%s.%s.%s' % (LEAN_NS, dict(CLASSES)[cls], name) if cls != self.cls else name
        return Val('step', '%s %s' % (qual, ' '.join(out)), mon=True)

    # ---- statements
    def emit(self, s, ind):
        self.lines.append('  ' * ind + s)

    def declare(self, name, val):
        lname = lean_ident(name, self.used)
        self.used.add(lname)
        self.env[name] = Val(val.ty, lname, atomic=True)
        return lname

    def assign_state(self, op, rhs, ind):
        v = self.ex(rhs)
        self.mut.add('ptr')
        if op == '=':
            if v.ty != 'ptr':
                raise ExtractError('cursor pointer assigned a %s value' % (v.ty,))
            if v.mon:
                self.emit('ptr ← %s' % v.term, ind)
            else:
                self.emit('ptr := %s' % v.term, ind)
        elif op == '+=':
            if v.ty != 'size':
                raise ExtractError('cursor pointer advanced by a %s value' % (v.ty,))
            self.emit('ptr ← advance ptr %s' % v.use(), ind)
        else:
            raise ExtractError('%s on the cursor pointer is not translated' % op)

    def stmts(self, body, ind, tail):
        for idx, s in enumerate(body):
            if self.returned_in(ind):
                raise ExtractError('statement after return')
            self.stmt(s, ind, tail and idx == len(body) - 1)

    def returned_in(self, ind):
        return self.returned

    def stmt(self, s, ind, tail):
        k = s[0]
        if k == 'assert':
            v = self.ex(s[1])
            if v.ty != 'bool':
                raise ExtractError('SBEPP_ASSERT of a %s value' % (v.ty,))
            self.emit('assertCursor %s %s' % (self.endp(), v.use()), ind)
        elif k == 'sizecheck':
            b, e, o, z = [self.ex(a) for a in s[1]]
            if (b.ty, e.ty, o.ty, z.ty) != ('ptr', 'endptr', 'size', 'size'):
                raise ExtractError('SBEPP_SIZE_CHECK(%s, %s, %s, %s)' % (b.ty, e.ty, o.ty, z.ty))
            self.emit('SBEPP_SIZE_CHECK %s %s %s %s' % (b.use(), e.use(), o.use(), z.use()), ind)
        elif k == 'decl':
            ty, name, init = s[1], s[2], s[3]
            v = self.ex(init)
            if v.ty in ('step', 'write', 'void', 'str') or (isinstance(v.ty, tuple) and v.ty[0] == 'tag'):
                raise ExtractError('declaration of %s from a %s value' % (name, v.ty))
            if ty != 'auto':
                # declared type must agree with the initialiser
                want = self.sig.roles.get(ty)
                ok = (ty in SIZE_TYPES and v.ty == 'size') \
                    or (want in ('value', 'prim') and isinstance(v.ty, tuple) and v.ty[0] == 'bytes') \
                    or (isinstance(want, tuple) and isinstance(v.ty, tuple) and v.ty[:2] == want) \
                    or (ty == 'bool' and v.ty == 'bool')
                if not ok:
                    raise ExtractError('%s %s initialised with a %s value' % (ty, name, v.ty))
                if want in ('value', 'prim'):
                    v = Val(('bytes', ty), v.term, v.mon, v.atomic)
            lname = self.declare(name, v)
            if v.mon:
                self.emit('let %s ← %s' % (lname, v.term), ind)
            else:
                self.emit('let %s := %s' % (lname, v.term), ind)
        elif k == 'expr':
            e = s[1]
            if e[0] == 'assign':
                if not self.is_state(e[2]):
                    raise ExtractError('assignment to something else than the cursor pointer')
                self.assign_state(e[1], e[3], ind)
            else:
                v = self.ex(e)
                if v.ty == 'write':
                    self.mut.add('buf')
                    self.emit('buf ← %s' % v.term, ind)
                else:
                    raise ExtractError('expression statement of a %s value' % (v.ty,))
        elif k == 'return':
            self.ret(s[1], ind)
        elif k == 'block':
            self.stmts(s[1], ind, tail)
        elif k == 'if':
            c = self.ex(s[1])
            if c.ty != 'bool':
                raise ExtractError('if on a %s value' % (c.ty,))
            self.emit('if %s then' % c.use(), ind)
            env = dict(self.env)
            n0 = len(self.lines)
            self.stmts(s[2], ind + 1, False)
            if len(self.lines) == n0:
                self.emit('pure ()', ind + 1)
            r1 = self.returned
            self.returned = False
            self.env = dict(env)
            r2 = False
            if s[3] is not None:
                self.emit('else', ind)
                n0 = len(self.lines)
                self.stmts(s[3], ind + 1, False)
                if len(self.lines) == n0:
                    self.emit('pure ()', ind + 1)
                r2 = self.returned
            self.env = env
            self.returned = r1 and r2 and s[3] is not None
        else:
            raise ExtractError('statement form %s' % k)

    def step(self, res):
        return '⟨%s, ptr, buf⟩' % res

    def ret(self, e, ind):
        rt = self.sig.ret
        if e is None:
            if rt != 'void':
                raise ExtractError('return without a value')
            self.emit('return %s' % self.step('.void'), ind)
        else:
            if e[0] == 'brace' and e[1] is None:
                if not (isinstance(rt, tuple) and rt[0] == 'sub'):
                    raise ExtractError('braced return in a function that does not return a view')
                v = self.mk_view(rt[1], rt[2], e[2])
            else:
                v = self.ex(e)
            if v.ty == 'step':
                # forwarding call: its result (value, cursor, memory) is the result
                self.emit(v.term, ind)
            elif rt == 'void':
                raise ExtractError('a void function returns a %s value' % (v.ty,))
            elif rt[0] == 'bytes' and isinstance(v.ty, tuple) and v.ty[0] == 'bytes':
                self.emit('return %s' % self.step('.value %s' % v.use()), ind)
            elif rt[0] == 'sub' and isinstance(v.ty, tuple) and v.ty[0] == 'sub' and v.ty[1] == rt[1]:
                self.emit('return %s' % self.step('.view %s' % v.use()), ind)
            else:
                raise ExtractError('returns a %s value, declared %s' % (v.ty, self.m.ret))
        self.returned = True

    def run(self):
        p = Parser(self.m.body)
        body = p.statements()
        self.stmts(body, 1, True)
        if not self.returned:
            if self.sig.ret != 'void':
                raise ExtractError('control reaches the end of a non-void function')
            self.emit('return %s' % self.step('.void'), 1)
        head = []
        for sv in ('ptr', 'buf'):
            if sv in self.mut:
                head.append('  let mut %s := %s' % (sv, sv))
        return head + self.lines


def render_def(sig, lines, meth, cls):
    binders = []
    # group consecutive binders of the same type
    i = 0
    bs = sig.binders
    while i < len(bs):
        j = i
        while j + 1 < len(bs) and bs[j + 1][1] == bs[i][1]:
            j += 1
        binders.append('(%s : %s)' % (' '.join(b[0] for b in bs[i:j + 1]), bs[i][1]))
        i = j + 1
    src = meth.text.replace('-/', '- /').replace('/-', '/ -')
    return ('/-- `%s::%s`, sbepp.hpp:%d\n```\n%s\n``` -/\ndef %s %s : Out Step := do\n%s\n' % (
        cls, meth.name, meth.line, src, meth.name, ' '.join(binders), '\n'.join(lines)))


HEADER = '''-- GENERATED by /verif/extract/methods_cursor.py from %(hpp)s on every check run. Do not edit.
--
-- One definition per accessor method of the five cursor classes, translated statement by statement from the C++
-- text into the DSL of Sbepp/Rt/Cursor.lean + Sbepp/Rt/CursorDsl.lean.  Tie: Sbepp/Lemmas/CursorTie.lean.
-- C++ typing facts assumed by the translator:
--  * first parameter `view` : LView  (addressof_tag -> some view.addr, get_level_tag -> some view.lvl,
--    get_block_length_tag -> view.wbl, end_ptr_tag -> view.endp); every sub-view carries the same end pointer
--  * Byte* = Option Nat (none = nullptr), std::size_t = Nat without wrap-around, `p - n` truncated
--  * `ptr` = the data member of `cursor` / `cursor->pointer()` of the wrappers, `buf` = memory
--  * SBEPP_ASSERT / SBEPP_SIZE_CHECK are enabled exactly when view.endp is `some _`
--  * sizeof_U / sizeof_T = sizeof of the primitive type, Res_size_bytes = res(size_bytes_tag{}) of a fixed-size
--    field view, ResView_dim / ResView_group / ResView_data (+ ResView_bo) describe the group / data view type,
--    `getter` = address of the view the random-access getter returns; values are raw bytes (byte order `E` unused)
import Sbepp.Rt.CursorDsl

set_option linter.unusedVariables false

namespace %(ns)s
open Sbepp Sbepp.Gen Sbepp.Cursor Sbepp.Rt.Cursor Sbepp.Rt.Cursor.Dsl

'''


def extract(repo, outdir):
    report = {'source': HPP, 'methods': {}, 'failed': {}}
    path = os.path.join(repo, HPP)
    try:
        raw = open(path, encoding='utf-8').read()
    except OSError as e:
        report['failed']['sbepp.hpp'] = str(e)
        return report
    src = cxx.strip_comments(raw)
    scanned = {}
    for cls, ns in CLASSES:
        try:
            s, e = cxx.find_class_body(src, cls)
            base_line = src.count('\n', 0, s) + 1
            methods, members = scan_class(tokenize(src[s:e], base_line))
            scanned[cls] = (methods, members)
        except (ExtractError, ValueError, AssertionError, IndexError) as ex:
            report['failed'][cls] = 'class: %s' % ex

    done = {}      # (cls, name) -> (sig, lines, meth) | ExtractError
    order = []     # keys in order of completion: a callee is defined before its callers

    def find(cls, name):
        if cls not in scanned:
            raise ExtractError('class %s not available' % cls)
        ms = [m for m in scanned[cls][0] if m.name == name]
        if not ms:
            raise ExtractError('method %s::%s not found' % (cls, name))
        if len(ms) > 1:
            raise ExtractError('method %s::%s is overloaded (%d definitions)' % (cls, name, len(ms)))
        return ms[0]

    active = []

    def translate(cls, name):
        key = (cls, name)
        if key in done:
            return done[key]
        if key in active:
            raise ExtractError('recursive call chain through %s::%s' % key)
        active.append(key)
        try:
            meth = find(cls, name)
            ns = dict(CLASSES)[cls]
            result = None
            for mode in ('dim', 'group'):
                try:
                    sig = Sig(cls, meth, mode)
                    tr = Translator(cls, ns, meth, scanned[cls][1], sig, lookup)
                    lines = tr.run()
                    result = (sig, lines, meth)
                    break
                except NeedGroup:
                    if mode == 'group' or fam_of(name) != 'group':
                        raise ExtractError('a group view size is used where no group descriptor exists')
                    continue
            done[key] = result
            order.append(key)
            return result
        except (ExtractError, ValueError, AssertionError, IndexError, KeyError, RecursionError) as ex:
            err = ex if isinstance(ex, ExtractError) else ExtractError('%s: %s' % (type(ex).__name__, ex))
            done[key] = err
            order.append(key)
            return err
        finally:
            active.pop()

    def lookup(cls, name, _mode):
        r = translate(cls, name)
        if isinstance(r, ExtractError):
            raise ExtractError('callee %s::%s was not translated (%s)' % (cls, name, r))
        return r[0], r[2]

    for cls, ns in CLASSES:
        for name in METHODS:
            if cls in scanned and not any(m.name == name for m in scanned[cls][0]) and (cls, name) in ABSENT_OK:
                continue
            translate(cls, name)
    parts = []
    for cls, ns in CLASSES:
        defs = []
        for (c, name) in order:
            if c != cls:
                continue
            r = done[(c, name)]
            if isinstance(r, ExtractError):
                report['failed']['%s::%s' % (cls, name)] = str(r)
                defs.append('-- EXTRACTION FAILED: %s::%s: %s\n' % (cls, name, str(r).replace('\n', ' ')))
                continue
            sig, lines, meth = r
            defs.append(render_def(sig, lines, meth, cls))
            report['methods']['%s::%s' % (cls, name)] = {
                'line': meth.line, 'lean': '%s.%s.%s' % (LEAN_NS, ns, name),
                'term_sha': hashlib.sha256('\n'.join(lines).encode()).hexdigest()[:12]}
        parts.append('/-! ### `%s` -/\nnamespace %s\n\n%s\nend %s\n' % (cls, ns, '\n'.join(defs), ns))
    text = HEADER % {'hpp': HPP, 'ns': LEAN_NS} + '\n'.join(parts) + '\nend %s\n' % LEAN_NS
    if outdir:
        write_if_changed(os.path.join(outdir, 'CursorMethods.lean'), text)
    return report
