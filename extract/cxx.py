"""Tiny C++ expression/statement translator for the kernel whitelist.

Parses the subset of C++ that occurs in the whitelisted function bodies of
sbepp.hpp and renders it as Lean `Sbepp.CExpr` / `Sbepp.CStmt` terms.

Nothing here interprets the arithmetic: typing, promotion and UB are decided by
the Lean evaluator (`Sbepp/Base/CInt.lean`, `CExpr.lean`).  The translator only
preserves the *shape* of the expression, the literal values/suffixes and the
cast targets.
"""
import re

# ------------------------------------------------------------------ source access


def strip_comments(src):
    out = []
    i = 0
    n = len(src)
    while i < n:
        c = src[i]
        if c == '/' and i + 1 < n and src[i + 1] == '/':
            j = src.find('\n', i)
            if j < 0:
                j = n
            i = j
        elif c == '/' and i + 1 < n and src[i + 1] == '*':
            j = src.find('*/', i + 2)
            if j < 0:
                j = n - 2
            # keep newlines so that line numbers survive
            out.append('\n' * src.count('\n', i, j + 2))
            i = j + 2
        elif c == '"':
            j = i + 1
            while j < n and src[j] != '"':
                if src[j] == '\\':
                    j += 1
                j += 1
            out.append(src[i:j + 1])
            i = j + 1
        elif c == "'":
            j = i + 1
            while j < n and src[j] != "'":
                if src[j] == '\\':
                    j += 1
                j += 1
            out.append(src[i:j + 1])
            i = j + 1
        else:
            out.append(c)
            i += 1
    return ''.join(out)


def match_brace(src, i, open_c='{', close_c='}'):
    """src[i] == open_c; return index of the matching close."""
    assert src[i] == open_c, (src[i:i + 20], open_c)
    depth = 0
    n = len(src)
    while i < n:
        c = src[i]
        if c == open_c:
            depth += 1
        elif c == close_c:
            depth -= 1
            if depth == 0:
                return i
        elif c == '"' or c == "'":
            q = c
            i += 1
            while i < n and src[i] != q:
                if src[i] == '\\':
                    i += 1
                i += 1
        i += 1
    raise ValueError('unbalanced')


class ExtractError(Exception):
    pass


def find_class_body(src, class_name):
    """Return (start, end) offsets of the body of `class class_name` (first
    definition, not a forward declaration)."""
    for m in re.finditer(r'\b(?:class|struct)\s+' + re.escape(class_name) + r'\b[^;{]*\{', src):
        start = m.end() - 1
        end = match_brace(src, start)
        return start + 1, end
    raise ExtractError('class %s not found' % class_name)


def find_function(src, sig_regex, start=0, end=None, nth=0):
    """Find a function whose signature (text before the body's opening brace)
    matches sig_regex inside src[start:end]; return (body_text, line_number)."""
    region = src[start:end]
    ms = list(re.finditer(sig_regex, region, re.S))
    if len(ms) <= nth:
        raise ExtractError('signature /%s/ not found' % sig_regex)
    m = ms[nth]
    i = region.find('{', m.end() - 1) if region[m.end() - 1] != '{' else m.end() - 1
    # allow `noexcept`, `const` and ctor-initialisers between signature and body
    j = match_brace(region, i)
    body = region[i + 1:j]
    line = src.count('\n', 0, start + m.start()) + 1
    return body, line


# ------------------------------------------------------------------ tokens

TOK = re.compile(r'''
    (?P<ws>\s+)
  | (?P<num>0[xX][0-9a-fA-F']+[uUlL]*|\d[\d']*[uUlL]*)
  | (?P<id>[A-Za-z_][A-Za-z_0-9]*(?:::[A-Za-z_][A-Za-z_0-9]*)*)
  | (?P<str>"(?:[^"\\]|\\.)*")
  | (?P<op><<=|>>=|<=>|->|\+\+|--|<<|>>|<=|>=|==|!=|&&|\|\||\+=|-=|\*=|/=|%=|&=|\|=|\^=|::|[-+*/%<>=!~&|^?:;,.(){}\[\]])
''', re.X)


def tokenize(text):
    toks = []
    i = 0
    while i < len(text):
        m = TOK.match(text, i)
        if not m:
            raise ExtractError('cannot tokenize at: %r' % text[i:i + 30])
        i = m.end()
        k = m.lastgroup
        if k == 'ws':
            continue
        toks.append((k, m.group(k)))
    return toks


# ------------------------------------------------------------------ parser

BIN_PREC = [
    ('||', 1, 'lor'), ('&&', 2, 'land'), ('|', 3, 'bor'), ('^', 4, 'bxor'), ('&', 5, 'band'),
    ('==', 6, 'eq'), ('!=', 6, 'ne'),
    ('<', 7, 'lt'), ('<=', 7, 'le'), ('>', 7, 'gt'), ('>=', 7, 'ge'),
    ('<<', 8, 'shl'), ('>>', 8, 'shr'),
    ('+', 9, 'add'), ('-', 9, 'sub'),
    ('*', 10, 'mul'), ('/', 10, 'div'), ('%', 10, 'mod'),
]
BIN = {op: (p, name) for op, p, name in BIN_PREC}


class Ctx:
    """Translation context of one kernel.

    types:   C++ type spelling -> Lean CTy term (e.g. 'std::size_t' -> '.u64',
             'T' -> 'T' for a template parameter bound as a Lean variable)
    aliases: list of (regex on the whitespace-free source text, variable name);
             applied before tokenising, longest first
    consts:  identifier -> Lean CExpr term (e.g. 'N' -> '(.lit .u64 N)')
    """

    def __init__(self, types=None, aliases=None, consts=None, sizeofs=None):
        self.types = dict(BASE_TYPES)
        self.types.update(types or {})
        self.aliases = aliases or []
        self.consts = consts or {}
        self.sizeofs = sizeofs or {}


BASE_TYPES = {
    'bool': '.bool', 'char': '.i8', 'std::int8_t': '.i8', 'std::uint8_t': '.u8',
    'std::int16_t': '.i16', 'std::uint16_t': '.u16', 'std::int32_t': '.i32',
    'std::uint32_t': '.u32', 'std::int64_t': '.i64', 'std::uint64_t': '.u64',
    'int': '.i32', 'unsigned': '.u32', 'std::size_t': '.u64', 'std::ptrdiff_t': '.i64',
    'choice_index_t': '.u8', 'length_t': '.u64',
}


class Parser:
    def __init__(self, toks, ctx):
        self.t = toks
        self.i = 0
        self.ctx = ctx

    def peek(self, k=0):
        return self.t[self.i + k] if self.i + k < len(self.t) else ('eof', '')

    def next(self):
        tok = self.peek()
        self.i += 1
        return tok

    def expect(self, val):
        tok = self.next()
        if tok[1] != val:
            raise ExtractError('expected %r got %r (near token %d: %r)' % (
                val, tok[1], self.i, ' '.join(x[1] for x in self.t[max(0, self.i - 6):self.i + 4])))

    def at(self, val):
        return self.peek()[1] == val and self.peek()[0] in ('op', 'id')

    # expr := ternary
    def expr(self):
        c = self.binary(1)
        if self.at('?'):
            self.next()
            a = self.expr()
            self.expect(':')
            b = self.expr()
            return '(.cond %s %s %s)' % (c, a, b)
        return c

    def binary(self, minp):
        lhs = self.unary()
        while True:
            k, v = self.peek()
            if k != 'op' or v not in BIN:
                return lhs
            p, name = BIN[v]
            if p < minp:
                return lhs
            self.next()
            rhs = self.binary(p + 1)
            lhs = '(.bin .%s %s %s)' % (name, lhs, rhs)

    def unary(self):
        k, v = self.peek()
        if k == 'op' and v in ('!', '~', '-', '+'):
            self.next()
            e = self.unary()
            return '(.un .%s %s)' % ({'!': 'lnot', '~': 'bnot', '-': 'neg', '+': 'plus'}[v], e)
        return self.postfix()

    def type_name(self):
        """parse a type spelling inside <...> or before {...}"""
        parts = []
        if self.at('::'):
            # globally qualified spelling `::std::size_t`
            self.next()
        while True:
            k, v = self.peek()
            if k == 'id' and v in ('const', 'typename'):
                self.next()
                continue
            if k == 'id':
                parts.append(v)
                self.next()
                continue
            break
        name = ' '.join(parts)
        if name not in self.ctx.types:
            raise ExtractError('unknown type %r' % name)
        return self.ctx.types[name]

    def postfix(self):
        k, v = self.next()
        if k == 'num':
            return lit(v)
        if k == 'op' and v == '(':
            e = self.expr()
            self.expect(')')
            return e
        if k == 'id':
            if v == 'static_cast':
                self.expect('<')
                t = self.type_name()
                self.expect('>')
                self.expect('(')
                e = self.expr()
                self.expect(')')
                return '(.cast %s %s)' % (t, e)
            if v == 'sizeof':
                self.expect('(')
                parts = []
                while not self.at(')'):
                    parts.append(self.next()[1])
                self.expect(')')
                name = ' '.join(parts)
                if name in self.ctx.sizeofs:
                    return self.ctx.sizeofs[name]
                if name in self.ctx.types:
                    return '(.lit .u64 (%s.bits / 8))' % paren_ty(self.ctx.types[name])
                raise ExtractError('sizeof(%s): unknown operand' % name)
            if v in ('true', 'false'):
                return '(.lit .bool %d)' % (1 if v == 'true' else 0)
            if v == 'nullptr':
                return '(.lit .ptr 0)'
            if v in ('UINT64_C', 'UINT32_C', 'UINT16_C', 'UINT8_C') and self.at('('):
                self.next()
                kk, num = self.next()
                self.expect(')')
                ty = {'UINT64_C': '.u64', 'UINT32_C': '.u32', 'UINT16_C': '.i32', 'UINT8_C': '.i32'}[v]
                return '(.lit %s %d)' % (ty, int(num.replace("'", ''), 0))
            if v in self.ctx.types and (self.at('{') or self.at('(')):
                # functional cast T{e} / T(e)
                close = '}' if self.at('{') else ')'
                self.next()
                e = self.expr()
                self.expect(close)
                return '(.cast %s %s)' % (self.ctx.types[v], e)
            if v in self.ctx.consts:
                return self.ctx.consts[v]
            if self.at('(') or self.at('.') or self.at('->') or self.at('['):
                raise ExtractError('call/member expression on %r is not aliased' % v)
            return '(.var "%s")' % v
        raise ExtractError('unexpected token %r' % v)


def paren_ty(t):
    return t if re.fullmatch(r'[A-Za-z_.0-9]+', t) else '(%s)' % t


def lit(tok):
    m = re.fullmatch(r"(0[xX][0-9a-fA-F']+|\d[\d']*)([uUlL]*)", tok)
    digits, suf = m.group(1).replace("'", ''), m.group(2).lower()
    val = int(digits, 0)
    hexoct = digits.lower().startswith('0x') or (len(digits) > 1 and digits[0] == '0')
    if len(digits) > 1 and digits[0] == '0' and not digits.lower().startswith('0x'):
        val = int(digits, 8)
    uns = 'u' in suf
    longs = suf.count('l')
    # C++ literal typing on LP64
    if uns:
        cands = ['.u32', '.u64'] if longs == 0 else ['.u64']
    elif longs:
        cands = ['.i64', '.u64'] if hexoct else ['.i64']
    else:
        cands = ['.i32', '.u32', '.i64', '.u64'] if hexoct else ['.i32', '.i64']
    lim = {'.i32': 2 ** 31, '.u32': 2 ** 32, '.i64': 2 ** 63, '.u64': 2 ** 64}
    for c in cands:
        if val < lim[c]:
            return '(.lit %s %d)' % (c, val)
    raise ExtractError('literal %s too large' % tok)


def normalise(text):
    return re.sub(r'\s+', '', text)


def apply_aliases(text, ctx):
    """Aliases are matched on whitespace-free text and replaced by ` name `."""
    t = normalise_keep_words(text)
    for pat, name in sorted(ctx.aliases, key=lambda a: -len(a[0])):
        t = re.sub(pat, ' %s ' % name, t)
    return t


def normalise_keep_words(text):
    # remove whitespace except where it separates two identifier characters
    text = re.sub(r'\s+', ' ', text.strip())
    text = re.sub(r'(?<![A-Za-z_0-9]) | (?![A-Za-z_0-9])', '', text)
    return text


def parse_expr(text, ctx):
    p = Parser(tokenize(apply_aliases(text, ctx)), ctx)
    e = p.expr()
    if p.peek()[0] != 'eof':
        raise ExtractError('trailing tokens in %r: %r' % (text, p.t[p.i:]))
    return e


def split_statements(body):
    """split a function body at top-level semicolons"""
    out = []
    depth = 0
    cur = []
    for ch in body:
        if ch in '({[':
            depth += 1
        elif ch in ')}]':
            depth -= 1
        if ch == ';' and depth == 0:
            s = ''.join(cur).strip()
            if s:
                out.append(s)
            cur = []
        else:
            cur.append(ch)
    s = ''.join(cur).strip()
    if s:
        out.append(s)
    return out


def split_args(text):
    out = []
    depth = 0
    cur = []
    for ch in text:
        if ch in '({[<' and not (ch == '<' and False):
            if ch != '<':
                depth += 1
        elif ch in ')}]':
            depth -= 1
        if ch == ',' and depth == 0:
            out.append(''.join(cur).strip())
            cur = []
        else:
            cur.append(ch)
    out.append(''.join(cur).strip())
    return out


def expand_macros(stmt, macros):
    """Expand function-like macros (SBEPP_SIZE_CHECK) textually, as cpp would."""
    for name, (params, body) in macros.items():
        while True:
            m = re.search(r'\b' + name + r'\s*\(', stmt)
            if not m:
                break
            i = m.end() - 1
            j = match_brace(stmt, i, '(', ')')
            args = split_args(stmt[i + 1:j])
            if len(args) != len(params):
                raise ExtractError('%s: expected %d args' % (name, len(params)))
            b = body
            for p, a in zip(params, args):
                b = re.sub(r'\b' + p + r'\b', lambda _m, a=a: a, b)
            stmt = stmt[:m.start()] + b + stmt[j + 1:]
    return stmt


def translate_body(body, ctx, ret_ty, macros=None, skip=None):
    """Translate a straight-line body.  Returns (stmts, ret) where stmts is a
    list of Lean CStmt terms and ret is a Lean CExpr term or None."""
    stmts = []
    ret = None
    for s in split_statements(body):
        s = s.strip()
        if skip and any(re.search(p, normalise(s)) for p in skip):
            continue
        if macros:
            s = expand_macros(s, macros)
        if s.startswith('return'):
            e = s[len('return'):].strip()
            if e == '*this' or e == '':
                continue
            ex = parse_expr(e, ctx)
            ret = '(.cast %s %s)' % (ret_ty, ex) if ret_ty else ex
            continue
        m = re.match(r'SBEPP_ASSERT\s*\((.*)\)$', s, re.S)
        if m:
            inner = m.group(1)
            # drop the `&& "message"` idiom
            inner = re.sub(r'&&\s*"[^"]*"\s*$', '', inner.strip())
            stmts.append('(.assert %s)' % parse_expr(inner, ctx))
            continue
        m = re.match(r'(?:const\s+)?(auto|[A-Za-z_:0-9]+)\s+([A-Za-z_][A-Za-z_0-9]*)\s*(?:=\s*(.*)|\{(.*)\})$', s, re.S)
        if m and m.group(1) not in ('return',):
            tyname, var = m.group(1), m.group(2)
            init = m.group(3) if m.group(3) is not None else m.group(4)
            if tyname == 'auto':
                raise ExtractError('auto declaration needs an alias/skip: %r' % s)
            if tyname not in ctx.types:
                raise ExtractError('unknown declared type %r' % tyname)
            stmts.append('(.decl %s "%s" %s)' % (ctx.types[tyname], var, parse_expr(init, ctx)))
            continue
        s2 = apply_aliases(s, ctx)
        m = re.match(r'([A-Za-z_][A-Za-z_0-9]*)\s*(\+\+|--)$', s2.strip())
        if m:
            op = 'add' if m.group(2) == '++' else 'sub'
            stmts.append('(.assign "%s" (.bin .%s (.var "%s") (.lit .i32 1)))' % (m.group(1), op, m.group(1)))
            continue
        m = re.match(r'([A-Za-z_][A-Za-z_0-9]*)\s*(\+=|-=|\*=|=)(?!=)\s*(.*)$', s2.strip(), re.S)
        if m:
            var, op, rhs = m.group(1), m.group(2), m.group(3)
            e = parse_expr(rhs, ctx)
            if op != '=':
                name = {'+=': 'add', '-=': 'sub', '*=': 'mul'}[op]
                e = '(.bin .%s (.var "%s") %s)' % (name, var, e)
            stmts.append('(.assign "%s" %s)' % (var, e))
            continue
        raise ExtractError('unsupported statement: %r' % s)
    return stmts, ret


def parse_define(src, name):
    """Extract a function-like macro definition (with line continuations)."""
    m = re.search(r'#\s*define\s+' + name + r'\s*\(([^)]*)\)((?:[^\n\\]|\\\n|\\.)*)', src)
    if not m:
        raise ExtractError('#define %s not found' % name)
    params = [p.strip() for p in m.group(1).split(',')]
    body = m.group(2).replace('\\\n', ' ').strip()
    return params, body
