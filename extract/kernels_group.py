"""Group / iterator kernels for C12 (and the flat part of C05).

Translates from sbepp.hpp, on every run:

* `flat_group_base::begin / end / operator[]` and `nested_group_base::begin /
  end`: the arguments of the `iterator{...}` construction, bound to the
  constructor parameters *in the order and with the types the constructor of
  `random_access_iterator` / `forward_iterator` declares them* (so that the
  parameter-passing conversions are evaluated by the Lean evaluator), together
  with the `SBEPP_ASSERT` preconditions;
* `forward_iterator::operator++` (+ checked variant), `==`, `!=`;
* the remaining `random_access_iterator` comparisons (`!=`, `<=`, `>`, `>=`);
* the accumulation step of `nested_group_base::operator()(size_bytes_tag)`;
* the *shape* (normalised source text) of the composite members whose bodies are
  compositions of the above (`front`, `back`, `operator+`, `operator-`,
  `operator[]` of the iterator, `operator*`, `resize`, `clear`, `size`, ...).
  `Sbepp/Rt/Iter.lean` hand-transliterates these compositions; if one of the
  bodies changes, `group_shapes_ok` becomes `false`, the property module stops
  building and the extraction is reported as failed by name.

Output: lean/Sbepp/Extracted/KernelsGroup.lean + a report (dict).
"""
import hashlib
import os
import re

from . import cxx
from .kernels import write_if_changed, lean_list

HPP = 'sbepp/src/sbepp/sbepp.hpp'

N = cxx.normalise_keep_words

# aliases on whitespace-free text -> typed variables of the group view
GROUP_ALIASES = [
    (r'\(\*this\)\(addressof_tag\{\}\)', 'addr'),
    (r'\(\*this\)\(end_ptr_tag\{\}\)', 'end'),
    (r'sbepp::size_bytes\(dimension\)', 'hdr'),
    (r'sbepp::size_bytes\(\(\*this\)\(get_header_tag\{\}\)\)', 'hdr'),
    (r'dimension\.blockLength\(\)\.value\(\)', 'bl'),
    (r'dimension\.numInGroup\(\)\.value\(\)', 'num'),
    (r'\(\*this\)\(get_header_tag\{\}\)\.blockLength\(\)\.value\(\)', 'bl'),
    (r'\(\*this\)\(get_header_tag\{\}\)\.numInGroup\(\)\.value\(\)', 'num'),
    (r'(?<![A-Za-z_0-9.>])size\(\)', 'num'),
]

GROUP_PARAMS = [('addr', '.ptr'), ('hdr', '.u64'), ('num', 'NT'), ('bl', 'BT'), ('end', '.ptr')]

# composite bodies that the Lean model transliterates by hand
SHAPES = [
    # (name, class, signature regex, expected normalised body)
    ('ra_iter_plus', 'random_access_iterator', r'operator\+\(\s*difference_type\s+n\s*\)\s*const\s+noexcept\s*\{',
     'auto tmp=*this;return tmp+=n;'),
    ('ra_iter_plus_friend', 'random_access_iterator',
     r'operator\+\(\s*difference_type\s+n\s*,\s*const\s+random_access_iterator&\s+it\s*\)\s*noexcept\s*\{',
     'return it+n;'),
    ('ra_iter_sub_assign', 'random_access_iterator', r'operator-=\(\s*difference_type\s+n\s*\)\s*noexcept\s*\{',
     'return*this+=-n;'),
    ('ra_iter_minus', 'random_access_iterator', r'operator-\(\s*difference_type\s+n\s*\)\s*const\s+noexcept\s*\{',
     'auto tmp=*this;return tmp-=n;'),
    ('ra_iter_subscript', 'random_access_iterator',
     r'reference\s+operator\[\]\(\s*difference_type\s+n\s*\)\s*const\s+noexcept\s*\{',
     'return*(*this+n);'),
    # (fwd_iter_deref, the flat/nested group front/back/size/sbe_size/empty/resize/clear bodies and the nested
    #  size_bytes loop were pinned here as text until extract/methods_group.py started translating them on every run:
    #  Lemmas/GroupTie.lean now ties them statement by statement, so that harmless re-spellings no longer raise an alarm)
    # the numInGroup setter of a dimension composite is generated code that
    # calls set_value; set_value writes sizeof(T) bytes at `offset`
    ('set_value', None, r'set_value\(\s*const\s+View\s+view\s*,\s*const\s+std::size_t\s+offset\s*,\s*const\s+T\s+value\s*\)\s*noexcept\s*\{',
     'SBEPP_SIZE_CHECK(view(addressof_tag{}),view(end_ptr_tag{}),offset,sizeof(T));'
     'set_primitive<E>(view(addressof_tag{})+offset,value);'),
]


def strip_pp_else(body):
    """`#if SBEPP_SIZE_CHECKS_ENABLED A #else B #endif` -> B (the unchecked
    variant; the checked variant differs only in passing `end` through)."""
    return re.sub(r'#\s*if\s+SBEPP_SIZE_CHECKS_ENABLED(.*?)#\s*else(.*?)#\s*endif', r'\2', body, flags=re.S)


def ctor_params(src, cls):
    """Parameter list (name, Lean type) of the 4-argument constructor of an
    iterator class, after checking that each parameter initialises the member
    of the same name."""
    s, e = cxx.find_class_body(src, cls)
    region = src[s:e]
    m = re.search(re.escape(cls) + r'\(\s*(Byte\*[^)]*)\)\s*noexcept\s*:(.*?)\n\s*\{', region, re.S)
    if not m:
        raise cxx.ExtractError('%s: constructor not found' % cls)
    tymap = {'Byte*': '.ptr', 'const BlockLengthType': 'BT', 'const IndexType': 'NT',
             'BlockLengthType': 'BT', 'IndexType': 'NT'}
    out = []
    for p in m.group(1).split(','):
        p = ' '.join(p.split())
        mm = re.fullmatch(r'(.*?)\s*([A-Za-z_]\w*)', p)
        ty, name = mm.group(1).strip(), mm.group(2)
        if ty not in tymap:
            raise cxx.ExtractError('%s: unknown constructor parameter type %r' % (cls, ty))
        out.append((name, tymap[ty]))
    inits = re.sub(r'\s+', '', m.group(2))
    for name, _ in out:
        if name == 'end':
            continue
        if '%s{%s}' % (name, name) not in inits:
            raise cxx.ExtractError('%s: member %s is not initialised from the parameter of the same name' % (cls, name))
    if sorted(n for n, _ in out) != ['block_length', 'end', 'index', 'ptr']:
        raise cxx.ExtractError('%s: unexpected constructor parameters %r' % (cls, out))
    return out


def ctor_kernel(name, cls, body, line, ctor, extra_params, size_bytes_ret, deref):
    """`[SBEPP_ASSERT(..);] auto dimension = ...; return [*]iterator{a, b, c, d};`
    -> kernel whose body declares it_<param> := <arg> converted to the
    parameter type."""
    text = N(body)
    if size_bytes_ret is not None:
        text = text.replace('(*this)(size_bytes_tag{})', '(static_cast<std::size_t>(%s))' % size_bytes_ret)
    stmts = cxx.split_statements(text)
    pre = []
    ret = None
    for s in stmts:
        if re.match(r'auto dimension=\(\*this\)\(get_header_tag\{\}\)$', s):
            continue
        if s.startswith('SBEPP_ASSERT'):
            pre.append(s)
            continue
        m = re.match(r'return\s*(\*?)\s*iterator\{(.*)\}$', s, re.S)
        if m:
            if bool(m.group(1)) != deref:
                raise cxx.ExtractError('%s: dereference shape changed' % name)
            ret = cxx.split_args(m.group(2))
            continue
        raise cxx.ExtractError('%s: unsupported statement %r' % (name, s))
    if ret is None or len(ret) != len(ctor):
        raise cxx.ExtractError('%s: iterator{...} with %d arguments not found' % (name, len(ctor)))
    ctx = cxx.Ctx(types={'NT': 'NT', 'BT': 'BT', 'PtrT': '.ptr'}, aliases=GROUP_ALIASES)
    synth = ';'.join(pre)
    leanty = {'.ptr': 'PtrT', 'BT': 'BT', 'NT': 'NT'}
    for (pname, pty), arg in zip(ctor, ret):
        synth += ';%s it_%s=%s' % (leanty[pty], pname, arg)
    lean_stmts, _ = cxx.translate_body(synth, ctx, None)
    params = lean_list('("%s", %s)' % (v, t) for v, t in GROUP_PARAMS + extra_params)
    d = 'def %s (NT : CTy) (BT : CTy) : Kernel :=\n  { params := %s,\n    body := %s,\n    ret := none }\n' % (
        name, params, lean_list(lean_stmts))
    return '/-- %s::%s, sbepp.hpp:%d\n%s -/\n%s' % (cls, name, line, text.replace('-/', '- /'), d)


SIMPLE = [
    dict(name='ra_iter_ne', cls='random_access_iterator', op='!=', tparams=['IT']),
    dict(name='ra_iter_le', cls='random_access_iterator', op='<=', tparams=['IT']),
    dict(name='ra_iter_gt', cls='random_access_iterator', op='>', tparams=['IT']),
    dict(name='ra_iter_ge', cls='random_access_iterator', op='>=', tparams=['IT']),
    dict(name='fwd_iter_eq', cls='forward_iterator', op='==', tparams=['IT']),
    dict(name='fwd_iter_ne', cls='forward_iterator', op='!=', tparams=['IT']),
]


def extract(repo, outdir):
    path = os.path.join(repo, HPP)
    raw = open(path, encoding='utf-8').read()
    src = cxx.strip_comments(raw)
    report = {'source': HPP, 'sha256': hashlib.sha256(raw.encode()).hexdigest(), 'kernels': {}, 'failed': {},
              'shapes': {}}
    defs = []

    def stub(name, binders, params, ex):
        report['failed'][name] = str(ex)
        defs.append('/-- EXTRACTION FAILED: %s -/\ndef %s%s : Kernel :=\n  { params := %s, body := [(.assert (.lit .bool 0))], ret := none }\n' % (
            str(ex).replace('-/', '- /'), name, binders, params))

    errs = (cxx.ExtractError, ValueError, AssertionError, KeyError, IndexError, AttributeError)

    # ---- size_bytes return expression of the flat group (inlined into end())
    size_bytes_ret = None
    try:
        s, e = cxx.find_class_body(src, 'flat_group_base')
        body, _ = cxx.find_function(src, r'std::size_t\s+operator\(\)\(\s*size_bytes_tag\s*\)\s*const\s+noexcept\s*\{', s, e)
        st = cxx.split_statements(N(body))
        if len(st) != 2 or not st[0].startswith('auto dimension=') or not st[1].startswith('return'):
            raise cxx.ExtractError('flat size_bytes: unexpected shape')
        size_bytes_ret = st[1][len('return'):].strip()
    except errs as ex:
        report['failed']['flat_group_size_bytes_inline'] = str(ex)

    # ---- iterator-constructing members
    ctor_specs = [
        ('flat_group_begin', 'flat_group_base', 'random_access_iterator', r'iterator\s+begin\(\)\s*const\s+noexcept\s*\{', [], False),
        ('flat_group_end', 'flat_group_base', 'random_access_iterator', r'iterator\s+end\(\)\s*const\s+noexcept\s*\{', [], False),
        ('flat_group_subscript', 'flat_group_base', 'random_access_iterator',
         r'reference\s+operator\[\]\(\s*size_type\s+pos\s*\)\s*const\s+noexcept\s*\{', [('pos', 'NT')], True),
        ('nested_group_begin', 'nested_group_base', 'forward_iterator', r'iterator\s+begin\(\)\s*const\s+noexcept\s*\{', [], False),
        ('nested_group_end', 'nested_group_base', 'forward_iterator', r'iterator\s+end\(\)\s*const\s+noexcept\s*\{', [], False),
    ]
    for name, cls, itcls, sig, extra, deref in ctor_specs:
        params = lean_list('("%s", %s)' % (v, t) for v, t in GROUP_PARAMS + extra)
        try:
            ctor = ctor_params(src, itcls)
            s, e = cxx.find_class_body(src, cls)
            body, line = cxx.find_function(src, sig, s, e)
            if '(*this)(size_bytes_tag{})' in N(body) and size_bytes_ret is None:
                raise cxx.ExtractError('needs the flat size_bytes expression, which was not extracted')
            defs.append(ctor_kernel(name, cls, body, line, ctor, extra, size_bytes_ret, deref))
            report['kernels'][name] = {'line': line, 'text': N(body), 'ctor': ctor}
        except errs as ex:
            stub(name, ' (NT : CTy) (BT : CTy)', params, ex)

    # ---- comparisons
    for k in SIMPLE:
        params = '[("lhs_index", IT), ("rhs_index", IT)]'
        try:
            s, e = cxx.find_class_body(src, k['cls'])
            sig = (r'friend\s+constexpr\s+bool\s+operator' + re.escape(k['op']) + r'\(\s*const\s+' + k['cls']
                   + r'&\s+lhs\s*,\s*const\s+' + k['cls'] + r'&\s+rhs\s*\)\s*noexcept\s*\{')
            body, line = cxx.find_function(src, sig, s, e)
            ctx = cxx.Ctx(types={'IT': 'IT'}, aliases=[(r'rhs\.index', 'rhs_index'), (r'lhs\.index', 'lhs_index')])
            stmts, ret = cxx.translate_body(body, ctx, '.bool')
            if stmts or ret is None:
                raise cxx.ExtractError('unexpected shape')
            defs.append('/-- %s::%s, sbepp.hpp:%d\n%s -/\ndef %s (IT : CTy) : Kernel :=\n  { params := %s,\n    body := [],\n    ret := some %s }\n' % (
                k['cls'], k['name'], line, N(body), k['name'], params, ret))
            report['kernels'][k['name']] = {'line': line, 'text': N(body)}
        except errs as ex:
            stub(k['name'], ' (IT : CTy)', params, ex)

    # ---- forward_iterator::operator++
    macros = {}
    try:
        macros['SBEPP_SIZE_CHECK'] = cxx.parse_define(src, 'SBEPP_SIZE_CHECK')
    except errs as ex:
        report['failed']['SBEPP_SIZE_CHECK'] = str(ex)
    for name, checked in (('fwd_iter_inc', False), ('fwd_iter_inc_check', True)):
        plist = [('ptr', '.ptr'), ('index', 'IT'), ('entry_size', '.u64')] + ([('end', '.ptr')] if checked else [])
        params = lean_list('("%s", %s)' % (v, t) for v, t in plist)
        try:
            s, e = cxx.find_class_body(src, 'forward_iterator')
            body, line = cxx.find_function(src, r'forward_iterator&\s+operator\+\+\(\)\s*noexcept\s*\{', s, e)
            ctx = cxx.Ctx(types={'IT': 'IT'}, aliases=[(r'sbepp::size_bytes\(operator\*\(\)\)', 'entry_size')])
            if checked:
                if 'SBEPP_SIZE_CHECK' not in macros:
                    raise cxx.ExtractError('SBEPP_SIZE_CHECK definition unavailable')
                stmts, _ = cxx.translate_body(body, ctx, None, macros=macros)
            else:
                stmts, _ = cxx.translate_body(body, ctx, None, skip=[r'^SBEPP_SIZE_CHECK'])
            defs.append('/-- forward_iterator::%s, sbepp.hpp:%d\n%s -/\ndef %s (IT : CTy) : Kernel :=\n  { params := %s,\n    body := %s,\n    ret := none }\n' % (
                name, line, N(body), name, params, lean_list(stmts)))
            report['kernels'][name] = {'line': line, 'text': N(body)}
        except errs as ex:
            stub(name, ' (IT : CTy)', params, ex)

    # ---- SBEPP_SIZE_CHECK of operator()(get_header_tag) (checked builds)
    for name, cls in (('flat_group_header_check', 'flat_group_base'), ('nested_group_header_check', 'nested_group_base')):
        params = '[("addr", .ptr), ("end", .ptr), ("hdr", .u64)]'
        try:
            if 'SBEPP_SIZE_CHECK' not in macros:
                raise cxx.ExtractError('SBEPP_SIZE_CHECK definition unavailable')
            s, e = cxx.find_class_body(src, cls)
            body, line = cxx.find_function(src, r'Dimension\s+operator\(\)\(\s*get_header_tag\s*\)\s*const\s+noexcept\s*\{', s, e)
            ctx = cxx.Ctx(aliases=[(r'\(\*this\)\(addressof_tag\{\}\)', 'addr'), (r'\(\*this\)\(end_ptr_tag\{\}\)', 'end'),
                                   (r'sbepp::size_bytes\(header\)', 'hdr')])
            stmts, _ = cxx.translate_body(body, ctx, None, macros=macros,
                                          skip=[r'^Dimensionheader\{\(\*this\)\(addressof_tag\{\}\),\(\*this\)\(end_ptr_tag\{\}\)\}$', r'^returnheader$'])
            if len(stmts) != 1 or not stmts[0].startswith('(.assert'):
                raise cxx.ExtractError('unexpected shape: %r' % stmts)
            defs.append('/-- %s::operator()(get_header_tag), sbepp.hpp:%d\n%s -/\ndef %s : Kernel :=\n  { params := %s,\n    body := %s,\n    ret := none }\n' % (
                cls, line, N(body), name, params, lean_list(stmts)))
            report['kernels'][name] = {'line': line, 'text': N(body)}
        except errs as ex:
            stub(name, '', params, ex)

    # ---- nested size_bytes accumulation step
    try:
        s, e = cxx.find_class_body(src, 'nested_group_base')
        body, line = cxx.find_function(src, r'std::size_t\s+operator\(\)\(\s*size_bytes_tag\s*\)\s*const\s+noexcept\s*\{', s, e)
        m = re.search(r'for\(const auto entry:\*this\)\{(.*?)\}', N(body))
        if not m:
            raise cxx.ExtractError('loop not found')
        ctx = cxx.Ctx(aliases=[(r'sbepp::size_bytes\(entry\)', 'entry_size')])
        stmts, _ = cxx.translate_body(m.group(1), ctx, None)
        defs.append('/-- nested_group_base::size_bytes loop body, sbepp.hpp:%d\n%s -/\ndef nested_size_step : Kernel :=\n  { params := [("size", .u64), ("entry_size", .u64)],\n    body := %s,\n    ret := none }\n' % (
            line, m.group(1), lean_list(stmts)))
        report['kernels']['nested_size_step'] = {'line': line, 'text': m.group(1)}
    except errs as ex:
        stub('nested_size_step', '', '[("size", .u64), ("entry_size", .u64)]', ex)

    # ---- shapes of the hand-transliterated compositions
    shape_items = []
    for name, cls, sig, expected in SHAPES:
        try:
            if cls is None:
                s, e = 0, None
            else:
                s, e = cxx.find_class_body(src, cls)
            body, line = cxx.find_function(src, sig, s, e)
            got = N(strip_pp_else(body))
            got = re.sub(r'\s*;\s*', ';', got)
            ok = got == expected
            report['shapes'][name] = {'line': line, 'text': got, 'ok': ok}
            if not ok:
                report['failed']['shape.' + name] = 'body changed: %r (model transliterates %r)' % (got, expected)
            shape_items.append('("%s", %s)' % (name, 'true' if ok else 'false'))
        except errs as ex:
            report['failed']['shape.' + name] = str(ex)
            shape_items.append('("%s", false)' % name)
    defs.append('/-- bodies that `Sbepp/Rt/Iter.lean` transliterates by hand still have the\n    transliterated text (see /verif/extract/kernels_group.py, SHAPES) -/\n'
                'def group_shapes : List (String × Bool) :=\n  %s\n\n'
                'def group_shapes_ok : Bool := group_shapes.all (·.2)\n' % lean_list(shape_items))

    text = ('-- GENERATED by /verif/extract/kernels_group.py from %s on every check run. Do not edit.\n'
            'import Sbepp.Base.Kernel\n\nnamespace Sbepp.Extracted\nopen Sbepp\n\n' % HPP
            + '\n'.join(defs) + '\nend Sbepp.Extracted\n')
    write_if_changed(os.path.join(outdir, 'KernelsGroup.lean'), text)
    return report
