"""Translator: member functions of `sbepp::detail::static_array_ref` (and the
free helper `detail::string_length`) -> Lean `do` blocks.

Output: lean/Sbepp/Extracted/StaticArray.lean (module
`Sbepp.Extracted.StaticArray`) + a report (dict).

Pipeline, run on the text of sbepp.hpp on every check:

  1. comments are stripped, the class body is located, every member function
     definition is split into (template header, decoration, return type, name,
     parameter list, body);
  2. the body is parsed by a recursive-descent *statement* parser
     (`SBEPP_ASSERT`, `SBEPP_SIZE_CHECK` -- expanded through the `#define` found
     in the same file --, declarations, expression statements, `if`/`else`,
     `for`, `return`, `#if SBEPP_HAS_RANGES`/`#else`/`#endif`) and a
     precedence-climbing *expression* parser (member calls, `operator[]`, `*p`,
     pointer/size arithmetic, comparisons, `&&`/`||`/`!`, `static_cast` and
     C-style casts, braced initialisation, `std::` calls, lambdas, literals)
     into an AST;
  3. the AST is type-checked against a small model of the C++ types (pointer
     into the view, nullable pointer, reverse iterator, `std::size_t`,
     `std::ptrdiff_t`, element, `bool`, `const char*`, input iterator, range,
     initializer list, `eos_null`) -- class `using` aliases are read from the
     class -- and rendered into the monadic vocabulary of
     `Sbepp.Rt.StaticArray` (`M`, `assert`, `deref`, `store`, `std*`, `forLoop`,
     `toSizeT`, `ptrDiff`, ...).

Nothing is keyed to today's text: operators, operands, constants, callees,
argument order, statement order and conditions all flow from the AST into the
Lean term.  Whitespace, comments, names of locals (they only become Lean binder
names), `noexcept`, `SBEPP_CPPxx_CONSTEXPR`, `template<...>` headers do not.

A function of the whitelist that cannot be found, parsed or typed is listed in
`report['failed'][leanName]`, gets no definition (and neither does any function
that calls it), so the corresponding theorem of `Lemmas/StaticArrayTie.lean`
stops building.

C++ typing facts the translator assumes (LP64, as every configuration that the
checks build):
  * `std::size_t` is unsigned 64 bit, `std::ptrdiff_t` signed 64 bit; `N` is a
    `std::size_t`; `size_type`, `difference_type`, `pointer`, `iterator`,
    `reverse_iterator`, `value_type`, `element_type` are resolved through the
    class' own `using` declarations;
  * usual arithmetic conversions: an operation with one `std::size_t` operand
    is done in `std::size_t` (`toSizeT` of the mathematical result); a pointer
    difference is a mathematical integer (`ptrDiff`, no overflow: both pointers
    point into one object); conversions to `std::size_t` (`static_cast`, return
    type, parameter type, `SBEPP_SIZE_CHECK`) are `toSizeT`;
  * `int` literals and `'\\0'`-style character literals are their values;
    comparison of elements is `==`/`!=` only;
  * sub-expressions are evaluated left to right (the only effects of operands
    in this class are the size check of `data()` and reads);
  * a by-value parameter whose type is a template parameter of the member
    function is an input iterator, a forwarding reference `R&&` is a range;
  * a loop that does not end within |modelled memory| + 1 iterations is `ub`.
Not translated (primitives of the vocabulary, defined by their specification in
`Rt/StaticArray.lean`): the `std::` algorithms, `std::begin`/`std::end`,
`std::forward`, `std::reverse_iterator`, the base class `byte_range`
(`(*this)(addressof_tag{})`, `(*this)(end_ptr_tag{})`).
"""
import hashlib
import itertools
import os
import re

from . import cxx
from .cxx import ExtractError, strip_comments, find_class_body, match_brace
from .kernels import write_if_changed

HPP = 'sbepp/src/sbepp/sbepp.hpp'
CLASS = 'static_array_ref'
OUT = 'StaticArray.lean'

# ------------------------------------------------------------------ whitelist
# (C++ name, model types of the parameters) -> Lean name.  `entry`: an Outcome-valued
# wrapper with the signature of the hand model is generated as well.
METHODS = [
    ('size', (), 'size', False),
    ('data', (), 'data', False),
    ('begin', (), 'begin', False),
    ('end', (), 'end', False),
    ('rbegin', (), 'rbegin', False),
    ('rend', (), 'rend', False),
    ('strlen', (), 'strlen', True),
    ('strlen_r', (), 'strlenR', True),
    ('assign_string', ('CStr', 'Eos'), 'assignStringRaw', True),
    ('assign_string', ('Range', 'Eos'), 'assignStringRange', True),
    ('assign_range', ('Range',), 'assignRange', True),
    ('fill', ('Byte',), 'fill', True),
    ('assign', ('Size', 'Byte'), 'assignCount', True),
    ('assign', ('ExtIt', 'ExtIt'), 'assignIter', True),
    ('assign', ('IList',), 'assignIlist', True),
    ('pad', ('Eos', 'Ptr'), 'pad', True),
]
FREE = [('string_length', ('CStr',), 'stringLength', False)]

CONFIG_DIMS = ('ce', 'ranges')          # is_constant_evaluated(), SBEPP_HAS_RANGES
DIM_SUFFIX = {'ce': 'CE', 'ranges': 'Ranges'}
PP_MACROS = {'SBEPP_HAS_RANGES': 'ranges'}

LEAN_TY = {'Ptr': 'Nat', 'NPtr': 'Option Nat', 'RevIt': 'RevIt', 'Size': 'Nat', 'PtrDiff': 'Int',
           'Byte': 'Nat', 'Bool': 'Bool', 'CStr': 'CStr', 'ExtIt': 'ExtPtr', 'Range': 'List Nat',
           'IList': 'List Nat', 'Eos': 'EosNull', 'Unit': 'Unit', 'CopyResult': 'CopyResult'}

# ------------------------------------------------------------------ tokens

TOK = re.compile(r'''
    (?P<ws>\s+)
  | (?P<pp>\#[^\n]*)
  | (?P<num>0[xX][0-9a-fA-F']+[uUlL]*|\d[\d']*[uUlL]*)
  | (?P<chr>'(?:[^'\\]|\\.)+')
  | (?P<id>[A-Za-z_][A-Za-z_0-9]*(?:::[A-Za-z_][A-Za-z_0-9]*)*)
  | (?P<str>"(?:[^"\\]|\\.)*")
  | (?P<op><<=|>>=|<=>|->|\+\+|--|<<|>>|<=|>=|==|!=|&&|\|\||\+=|-=|\*=|/=|%=|&=|\|=|\^=|::|[-+*/%<>=!~&|^?:;,.(){}\[\]])
''', re.X)


def tokenize(text):
    toks = []
    i = 0
    while i < len(text):
        m = TOK.match(text, i)
        if not m:
            raise ExtractError('cannot tokenize at: %r' % text[i:i + 30])
        i = m.end()
        k = m.lastgroup
        if k == 'ws':
            continue
        toks.append((k, m.group(k)))
    return toks


CHAR_ESC = {'0': 0, 'n': 10, 't': 9, 'r': 13, '\\': 92, "'": 39, '"': 34, 'a': 7, 'b': 8, 'f': 12, 'v': 11}


def char_value(tok):
    body = tok[1:-1]
    if len(body) == 1:
        return ord(body)
    if body[0] == '\\':
        if body[1] == 'x':
            return int(body[2:], 16)
        if body[1:].isdigit():
            return int(body[1:], 8)
        if len(body) == 2 and body[1] in CHAR_ESC:
            return CHAR_ESC[body[1]]
    raise ExtractError('character literal %s' % tok)


def int_value(tok):
    m = re.fullmatch(r"(0[xX][0-9a-fA-F']+|\d[\d']*)([uUlL]*)", tok)
    digits = m.group(1).replace("'", '')
    if m.group(2):
        raise ExtractError('suffixed literal %s' % tok)
    if len(digits) > 1 and digits[0] == '0' and digits[1] not in 'xX':
        return int(digits, 8)
    return int(digits, 0)


# ------------------------------------------------------------------ AST
# expressions are tuples: ('int', n) ('char', n) ('bool', b) ('nullptr',) ('id', name) ('this',)
# ('call', f, [args]) f an expression ('id', ..) / ('tmpl', name, [type tokens]) / any callee expression
# ('member', obj, name) ('index', a, i) ('un', op, e) ('bin', op, a, b) ('assign', op, lhs, rhs)
# ('postfix', op, e) ('cast', [type tokens], e) ('brace', [type tokens], [args])
# ('lambda', [(type tokens, name)], [stmts])
# statements: ('assert', e) ('decl', [type tokens]|None, name, e|None) ('expr', e) ('return', e|None)
# ('if', c, [then], [else]|None) ('for', init|None, cond|None, [step exprs], [body])
# ('pp', macro, [then], [else])

BIN_PREC = {'||': 1, '&&': 2, '==': 6, '!=': 6, '<': 7, '<=': 7, '>': 7, '>=': 7,
            '+': 9, '-': 9, '*': 10, '/': 10, '%': 10}
TYPE_KEYWORDS = {'const', 'typename', 'volatile'}
TEMPLATE_FUNCS = {'static_cast', 'std::forward', 'std::move', 'reinterpret_cast', 'const_cast'}


class Parser:
    def __init__(self, toks, is_type):
        self.t = toks
        self.i = 0
        self.is_type = is_type          # predicate on an identifier: names a type

    def peek(self, k=0):
        return self.t[self.i + k] if self.i + k < len(self.t) else ('eof', '')

    def next(self):
        tok = self.peek()
        self.i += 1
        return tok

    def at(self, val, k=0):
        tok = self.peek(k)
        return tok[1] == val and tok[0] in ('op', 'id')

    def expect(self, val):
        tok = self.next()
        if tok[1] != val:
            raise ExtractError('expected %r, got %r near %r' % (
                val, tok[1], ' '.join(x[1] for x in self.t[max(0, self.i - 6):self.i + 4])))

    def eof(self):
        return self.peek()[0] == 'eof'

    # ---- types
    def type_tokens(self, stop):
        """type spelling up to (not including) a token in `stop` at angle depth 0"""
        out = []
        depth = 0
        while True:
            k, v = self.peek()
            if k == 'eof':
                raise ExtractError('unterminated type')
            if depth == 0 and v in stop and k == 'op':
                return out
            if v == '<':
                depth += 1
            elif v == '>':
                depth -= 1
            elif v == '>>':
                depth -= 2
            out.append(v)
            self.next()

    def starts_decl(self):
        """`[const] (auto | T) [*&]* name (= | { | ;)`"""
        j = 0
        if self.at('const', j):
            j += 1
        k, v = self.peek(j)
        if k != 'id' or not (v == 'auto' or self.is_type(v)):
            return False
        j += 1
        if self.at('<', j):
            return False
        while self.peek(j)[1] in ('*', '&', '&&', 'const'):
            j += 1
        k, v = self.peek(j)
        if k != 'id':
            return False
        return self.peek(j + 1)[1] in ('=', '{', ';')

    # ---- statements
    def block(self):
        self.expect('{')
        out = self.stmts(('}',))
        self.expect('}')
        return out

    def stmts(self, stop):
        out = []
        while not self.eof() and not (self.peek()[1] in stop and self.peek()[0] in ('op', 'ppend')):
            k, v = self.peek()
            if k == 'pp':
                d = v.split()
                if d[0] in ('#else', '#endif', '#elif'):
                    return out
                out.append(self.pp())
                continue
            out.append(self.stmt())
        return out

    def pp(self):
        k, v = self.next()
        m = re.fullmatch(r'#\s*if\s+(\w+)\s*', v)
        if not m or m.group(1) not in PP_MACROS:
            raise ExtractError('unsupported preprocessor line %r' % v)
        then = self.stmts(())
        els = []
        k, v = self.next()
        if re.match(r'#\s*else\b', v):
            els = self.stmts(())
            k, v = self.next()
        if not re.match(r'#\s*endif\b', v):
            raise ExtractError('expected #endif, got %r' % v)
        return ('pp', m.group(1), then, els)

    def stmt(self):
        k, v = self.peek()
        if k == 'op' and v == '{':
            return ('block', self.block())
        if k == 'op' and v == ';':
            self.next()
            return ('block', [])
        if k == 'id' and v == 'SBEPP_ASSERT':
            self.next()
            self.expect('(')
            e = self.expr()
            self.expect(')')
            self.expect(';')
            return ('assert', e)
        if k == 'id' and v == 'SBEPP_SIZE_CHECK':
            self.next()
            self.expect('(')
            args = self.args(')')
            self.expect(';')
            return ('sizecheck', args)
        if k == 'id' and v == 'return':
            self.next()
            if self.at(';'):
                self.next()
                return ('return', None)
            e = self.expr()
            self.expect(';')
            return ('return', e)
        if k == 'id' and v == 'if':
            self.next()
            self.expect('(')
            c = self.expr()
            self.expect(')')
            then = self.body()
            els = None
            if self.at('else'):
                self.next()
                els = self.body()
            return ('if', c, then, els)
        if k == 'id' and v == 'for':
            self.next()
            self.expect('(')
            init = None
            if not self.at(';'):
                init = self.simple_stmt()
            else:
                self.next()
            cond = None
            if not self.at(';'):
                cond = self.expr()
            self.expect(';')
            step = []
            if not self.at(')'):
                step.append(self.expr())
                while self.at(','):
                    self.next()
                    step.append(self.expr())
            self.expect(')')
            return ('for', init, cond, step, self.body())
        if k == 'id' and v in ('while', 'do', 'switch', 'goto', 'try', 'throw', 'break', 'continue'):
            raise ExtractError('unsupported statement `%s`' % v)
        return self.simple_stmt()

    def body(self):
        if self.at('{'):
            return self.block()
        return [self.stmt()]

    def simple_stmt(self):
        if self.starts_decl():
            if self.at('const'):
                self.next()
            ty = [self.next()[1]]
            while self.peek()[1] in ('*', '&', '&&', 'const'):
                ty.append(self.next()[1])
            name = self.next()[1]
            init = None
            braced = False
            if self.at('='):
                self.next()
                init = self.expr()
            elif self.at('{'):
                self.next()
                braced = True
                if not self.at('}'):
                    init = self.expr()
                self.expect('}')
            self.expect(';')
            return ('decl', None if ty == ['auto'] else ty, name, init, braced)
        e = self.expr()
        self.expect(';')
        return ('expr', e)

    # ---- expressions
    def args(self, close):
        out = []
        if not self.at(close):
            out.append(self.expr())
            while self.at(','):
                self.next()
                out.append(self.expr())
        self.expect(close)
        return out

    def expr(self):
        lhs = self.binary(1)
        k, v = self.peek()
        if k == 'op' and v in ('=', '+=', '-=', '*=', '/='):
            self.next()
            rhs = self.expr()
            return ('assign', v, lhs, rhs)
        if k == 'op' and v == '?':
            raise ExtractError('conditional operator is not supported')
        return lhs

    def binary(self, minp):
        lhs = self.unary()
        while True:
            k, v = self.peek()
            if k != 'op' or v not in BIN_PREC or BIN_PREC[v] < minp:
                if k == 'op' and v in ('&', '|', '^', '<<', '>>'):
                    raise ExtractError('operator %s is not supported' % v)
                return lhs
            self.next()
            rhs = self.binary(BIN_PREC[v] + 1)
            lhs = ('bin', v, lhs, rhs)

    def unary(self):
        k, v = self.peek()
        if k == 'op' and v in ('!', '-', '+', '*', '++', '--', '~', '&'):
            self.next()
            return ('un', v, self.unary())
        if k == 'op' and v == '(' and self.peek(1)[0] == 'id' and self.is_type(self.peek(1)[1]):
            # C-style cast `(T)e` / `(T*)e`
            j = 2
            while self.peek(j)[1] in ('*', '&', 'const'):
                j += 1
            if self.peek(j)[1] == ')':
                self.next()
                ty = []
                while not self.at(')'):
                    ty.append(self.next()[1])
                self.next()
                return ('cast', ty, self.unary())
        return self.postfix()

    def postfix(self):
        e = self.primary()
        while True:
            k, v = self.peek()
            if k != 'op':
                return e
            if v == '(':
                self.next()
                e = ('call', e, self.args(')'))
            elif v == '[':
                self.next()
                i = self.expr()
                self.expect(']')
                e = ('index', e, i)
            elif v == '.':
                self.next()
                k2, name = self.next()
                if k2 != 'id':
                    raise ExtractError('member name expected after `.`')
                e = ('member', e, name)
            elif v == '->':
                raise ExtractError('operator -> is not supported')
            elif v in ('++', '--'):
                self.next()
                e = ('postfix', v, e)
            else:
                return e

    def primary(self):
        k, v = self.next()
        if k == 'num':
            return ('int', int_value(v))
        if k == 'chr':
            return ('char', char_value(v))
        if k == 'op' and v == '(':
            e = self.expr()
            self.expect(')')
            return e
        if k == 'op' and v == '[':
            # lambda with an empty capture list
            self.expect(']')
            self.expect('(')
            params = []
            while not self.at(')'):
                ty = self.type_tokens((',', ')'))
                if not ty:
                    raise ExtractError('lambda parameter')
                params.append((ty[:-1], ty[-1]))
                if self.at(','):
                    self.next()
            self.expect(')')
            return ('lambda', params, self.block())
        if k == 'op' and v == '::':
            k, v = self.next()
        if k == 'id':
            if v in ('true', 'false'):
                return ('bool', v == 'true')
            if v == 'nullptr':
                return ('nullptr',)
            if v == 'this':
                return ('this',)
            if v == 'sizeof':
                raise ExtractError('sizeof is not supported')
            if v in TEMPLATE_FUNCS:
                self.expect('<')
                ty = self.type_tokens(('>',))
                self.expect('>')
                return ('tmpl', v, ty)
            if self.at('{'):
                self.next()
                return ('brace', [v], self.args('}'))
            if self.at('<') and self.is_type(v):
                # T<...>{args}
                self.next()
                targs = self.type_tokens(('>',))
                self.expect('>')
                self.expect('{')
                return ('brace', [v, '<'] + targs + ['>'], self.args('}'))
            return ('id', v)
        raise ExtractError('unexpected token %r' % v)


# ------------------------------------------------------------------ signatures

DECORATION = re.compile(r'^(SBEPP_CPP\d+_(?:CONSTEXPR|NODISCARD)|SBEPP_\w*NODISCARD|constexpr|inline|static|friend|explicit)$')


def split_params(toks):
    """token list of a parameter list -> [(type tokens, name, default tokens)]"""
    out = []
    cur = []
    depth = 0
    for k, v in toks + [('op', ',')]:
        if v in ('<', '(', '{', '['):
            depth += 1
        elif v in ('>', ')', '}', ']'):
            depth -= 1
        if v == ',' and depth == 0:
            if cur:
                default = []
                if '=' in cur:
                    j = cur.index('=')
                    cur, default = cur[:j], cur[j + 1:]
                if cur and re.fullmatch(r'[A-Za-z_]\w*', cur[-1]) and len(cur) > 1 and cur[-1] not in ('const',):
                    out.append((cur[:-1], cur[-1], default))
                else:
                    out.append((cur, None, default))
            cur = []
        else:
            cur.append(v)
    return out


def split_members(src, start, end):
    """function definitions directly inside src[start:end]:
    [(head text, body text, offset of head)]"""
    out = []
    i = start
    head_start = start
    paren = 0
    while i < end:
        c = src[i]
        if c in '"\'':
            q = c
            i += 1
            while i < end and src[i] != q:
                if src[i] == '\\':
                    i += 1
                i += 1
        elif c == '(':
            paren += 1
        elif c == ')':
            paren -= 1
        elif c == ';' and paren == 0:
            head_start = i + 1
        elif c == ':' and paren == 0 and re.search(r'\b(public|private|protected)\s*$', src[head_start:i]):
            head_start = i + 1
        elif c == '#' and paren == 0:
            j = src.find('\n', i)
            i = j if j >= 0 else end
            head_start = i + 1
        elif c == '{' and paren == 0:
            j = match_brace(src, i)
            head = src[head_start:i]
            if '(' in head and not re.match(r'\s*(class|struct|enum|union|namespace)\b', head):
                out.append((head, src[i + 1:j], head_start))
            i = j
            head_start = j + 1
        i += 1
    return out


def parse_head(head):
    """-> (template parameter names, return type tokens, name, params)"""
    toks = [t for t in tokenize(head) if t[0] != 'pp']
    i = 0
    tparams = []
    while i < len(toks) and toks[i][1] == 'template':
        assert toks[i + 1][1] == '<'
        depth = 0
        j = i + 1
        while True:
            v = toks[j][1]
            if v == '<':
                depth += 1
            elif v == '>':
                depth -= 1
            elif v == '>>':
                depth -= 2
            if depth <= 0:
                break
            j += 1
        inner = toks[i + 2:j]
        for ty, name, _d in split_params(inner):
            if ty and ty[0] in ('typename', 'class') and name:
                tparams.append(name)
            elif ty in (['typename'], ['class']):
                pass
        i = j + 1
    toks = toks[i:]
    # parameter list = last top-level (...) group that is followed only by const/noexcept/&
    depth = 0
    close = None
    for j in range(len(toks) - 1, -1, -1):
        v = toks[j][1]
        if v == ')':
            if depth == 0 and close is None:
                close = j
            depth += 1
        elif v == '(':
            depth -= 1
            if depth == 0 and close is not None:
                open_ = j
                break
    else:
        raise ExtractError('no parameter list in %r' % head)
    trailer = [v for _k, v in toks[close + 1:]]
    if any(v not in ('const', 'noexcept', '&', '&&') for v in trailer):
        raise ExtractError('unexpected tokens after the parameter list: %r' % trailer)
    before = toks[:open_]
    # name: identifier or operator...
    names = [v for _k, v in before]
    if 'operator' in names:
        j = names.index('operator')
        name = 'operator' + ''.join(names[j + 1:])
        ret = names[:j]
    else:
        name = names[-1]
        ret = names[:-1]
    ret = [v for v in ret if not DECORATION.match(v)]
    params = split_params(toks[open_ + 1:close])
    return tparams, ret, name, params


# ------------------------------------------------------------------ typing / rendering

class E:
    """elaborated expression: Lean text, model type, whether evaluating it has an
    effect (reads memory / may assert), whether `text` is an `M`-action (else a term
    that may contain nested `(← ..)` actions)."""

    def __init__(self, text, ty, eff=False, action=False, lit=None):
        self.text, self.ty, self.eff, self.action, self.lit = text, ty, eff or action, action, lit

    def term(self):
        return '(← %s)' % self.text if self.action else self.text


def paren(t):
    if re.fullmatch(r'[A-Za-z_0-9.!?]+|\[\]', t) or (t[0] == '(' and t[-1] == ')' and match_paren(t)):
        return t
    return '(%s)' % t


def match_paren(t):
    d = 0
    for i, c in enumerate(t):
        if c == '(':
            d += 1
        elif c == ')':
            d -= 1
            if d == 0 and i != len(t) - 1:
                return False
    return d == 0


class Func:
    def __init__(self, kind, cxx_name, lean, entry, tparams, ret, params, body, line, head):
        self.kind, self.cxx_name, self.lean, self.entry = kind, cxx_name, lean, entry
        self.tparams, self.ret_toks, self.params, self.body, self.line, self.head = tparams, ret, params, body, line, head
        self.ast = None


class Translator:
    def __init__(self, src):
        self.src = src
        self.aliases = {}
        self.funcs = {}          # lean name -> Func
        self.by_cxx = {}         # cxx name -> [Func]
        self.failed = {}
        self.ignored = []
        self.memo = {}           # (lean, config tuple) -> (text, deps) | ExtractError
        self.order = []
        self.size_check_macro = None

    # ---- type resolution
    def resolve_type(self, toks, tparams=()):
        """C++ type spelling (token list) -> model type"""
        t = [v for v in toks if v not in ('const', 'typename', 'volatile')]
        if t and t[0] == '::':
            t = t[1:]
        if not t:
            raise ExtractError('empty type')
        if t[-1] == '&&' and len(t) == 2 and t[0] in tparams:
            return 'Range'
        while t and t[-1] in ('&', '&&'):
            t = t[:-1]
        if len(t) == 1 and t[0] in tparams:
            return 'ExtIt'
        stars = 0
        while t and t[-1] == '*':
            stars += 1
            t = t[:-1]
        name = ''.join(t)
        if stars == 0:
            base = {'std::size_t': 'Size', '::std::size_t': 'Size', 'std::ptrdiff_t': 'PtrDiff', 'bool': 'Bool',
                    'void': 'Unit', 'char': 'Byte', 'eos_null': 'Eos', 'Value': 'Byte', 'Byte': 'Byte',
                    'std::reverse_iterator<iterator>': 'RevIt', 'std::reverse_iterator<pointer>': 'RevIt',
                    'detail::apply_cv_qualifiers_t<Byte,Value>': 'Byte',
                    'std::initializer_list<value_type>': 'IList', 'std::initializer_list<Value>': 'IList'}
            if name in base:
                return base[name]
            if name in self.aliases:
                return self.resolve_type(self.aliases[name], tparams)
            raise ExtractError('unknown type %r' % ' '.join(toks))
        if stars == 1:
            if name == 'char':
                return 'CStr'
            if name == 'void':
                return 'NPtr'
            if self.resolve_type(t, tparams) == 'Byte':
                return 'Ptr'
        raise ExtractError('unknown type %r' % ' '.join(toks))

    def is_type(self, ident):
        if ident in ('auto', 'std::size_t', 'std::ptrdiff_t', 'bool', 'char', 'void', 'eos_null', 'Value', 'Byte'):
            return True
        return ident in self.aliases

    # ---- collection
    def collect(self):
        src = self.src
        s, e = find_class_body(src, CLASS)
        body = src[s:e]
        for m in re.finditer(r'\busing\s+([A-Za-z_]\w*)\s*=\s*([^;]+);', body):
            # only class-level aliases (depth 0)
            if body.count('{', 0, m.start()) == body.count('}', 0, m.start()):
                self.aliases[m.group(1)] = [v for _k, v in tokenize(m.group(2))]
        members = split_members(src, s, e)
        want = {}
        for cxx_name, ptys, lean, entry in METHODS:
            want.setdefault(cxx_name, []).append((ptys, lean, entry))
        seen = set()
        for head, fbody, off in members:
            try:
                tparams, ret, name, params = parse_head(head)
            except (ExtractError, AssertionError, IndexError, ValueError) as ex:
                self.ignored.append('unparsed member head %r: %s' % (cxx.normalise_keep_words(head)[:60], ex))
                continue
            if name not in want:
                self.ignored.append(name)
                continue
            try:
                ptys = tuple(self.resolve_type(ty, tparams) for ty, _n, _d in params)
            except ExtractError as ex:
                ptys = ('?%s' % ex,)
            hit = [(p, lean, entry) for p, lean, entry in want[name] if p == ptys]
            if not hit:
                self.ignored.append('%s(%s)' % (name, ', '.join(ptys)))
                continue
            _p, lean, entry = hit[0]
            if lean in seen:
                self.failed[lean] = 'two definitions of %s(%s)' % (name, ', '.join(ptys))
                continue
            seen.add(lean)
            line = src.count('\n', 0, off + len(head) - len(head.lstrip())) + 1
            f = Func('member', name, lean, entry, tparams, ret, params, fbody, line, head)
            self.funcs[lean] = f
            self.by_cxx.setdefault(name, []).append(f)
        for cxx_name, ptys, lean, entry in FREE:
            found = False
            for m in re.finditer(r'[^;{}]*\b%s\s*\(' % re.escape(cxx_name), src):
                head_start = m.start()
                i = src.find('(', m.end() - 1)
                j = match_brace(src, i, '(', ')')
                k = j + 1
                while k < len(src) and (src[k].isspace() or src[k:k + 8] == 'noexcept' or src[k:k + 5] == 'const'):
                    k += 8 if src[k:k + 8] == 'noexcept' else 5 if src[k:k + 5] == 'const' else 1
                if k >= len(src) or src[k] != '{':
                    continue
                head = src[head_start:k]
                try:
                    tparams, ret, name, params = parse_head(head)
                    if name != cxx_name or tuple(self.resolve_type(ty, tparams) for ty, _n, _d in params) != ptys:
                        continue
                except (ExtractError, AssertionError, IndexError, ValueError):
                    continue
                kk = match_brace(src, k)
                line = src.count('\n', 0, head_start + len(head) - len(head.lstrip())) + 1
                f = Func('free', cxx_name, lean, entry, tparams, ret, params, src[k + 1:kk], line, head)
                self.funcs[lean] = f
                self.by_cxx.setdefault(cxx_name, []).append(f)
                found = True
                break
            if not found:
                self.failed[lean] = 'function %s(%s) not found' % (cxx_name, ', '.join(ptys))
        for cxx_name, ptys, lean, entry in METHODS:
            if lean not in self.funcs and lean not in self.failed:
                self.failed[lean] = 'member function %s(%s) not found in class %s' % (cxx_name, ', '.join(ptys), CLASS)
        try:
            params, mbody = cxx.parse_define(src, 'SBEPP_SIZE_CHECK')
            p = Parser(tokenize(mbody + ';'), self.is_type)
            st = p.stmt()
            if st[0] != 'assert' or not p.eof():
                raise ExtractError('SBEPP_SIZE_CHECK does not expand to one SBEPP_ASSERT')
            self.size_check_macro = (params, st[1], cxx.normalise_keep_words(mbody))
        except ExtractError as ex:
            self.size_check_macro = ex

    def parse(self, f):
        if f.ast is None:
            p = Parser(tokenize(f.body), self.is_type)
            ast = p.stmts(())
            if not p.eof():
                raise ExtractError('trailing tokens: %r' % (p.t[p.i:p.i + 5],))
            f.ast = ast
        return f.ast

    # ---- configuration variants
    def variant(self, lean, config):
        """-> (lean M-name, deps) where deps = config dimensions the function depends on"""
        deps = self.deps(lean)
        suffix = ''.join(DIM_SUFFIX[d] for d in CONFIG_DIMS if d in deps and config[d])
        return lean + suffix, deps

    def deps(self, lean, stack=()):
        if lean in self.failed:
            raise ExtractError('callee %s: %s' % (lean, self.failed[lean]))
        key = ('deps', lean)
        if key in self.memo:
            return self.memo[key]
        if lean in stack:
            raise ExtractError('recursive call of %s' % lean)
        f = self.funcs[lean]
        used = set()
        for vals in itertools.product((False, True), repeat=len(CONFIG_DIMS)):
            config = dict(zip(CONFIG_DIMS, vals))
            fe = FuncElab(self, f, config, stack + (lean,))
            fe.render()
            used |= fe.used
        self.memo[key] = used
        return used

    def emit(self, lean):
        """-> [(M-name, text)] for every variant"""
        f = self.funcs[lean]
        deps = [d for d in CONFIG_DIMS if d in self.deps(lean)]
        out = []
        for vals in itertools.product((False, True), repeat=len(deps)):
            config = {d: False for d in CONFIG_DIMS}
            config.update(dict(zip(deps, vals)))
            fe = FuncElab(self, f, config, (lean,))
            body = fe.render()
            name, _ = self.variant(lean, config)
            out.append((name, config, fe, body))
        return out


class Terminated(Exception):
    pass


class FuncElab:
    """elaboration of one function under one configuration"""

    def __init__(self, tr, f, config, stack):
        self.tr, self.f, self.config, self.stack = tr, f, config, stack
        self.used = set()          # configuration dimensions consulted
        self.callees = []
        self.env = {}
        self.ret_ty = None
        self.ext_params = []

    # ---- entry
    def signature(self):
        f = self.f
        self.ret_ty = self.tr.resolve_type(f.ret_toks, f.tparams)
        params = []
        for ty, name, _d in f.params:
            if name is None:
                raise ExtractError('unnamed parameter')
            t = self.tr.resolve_type(ty, f.tparams)
            params.append((name, t))
        return params

    def render(self):
        params = self.signature()
        self.params = params
        self.env = dict(params)
        self.ext_params = [(n, t) for n, t in params if t in ('CStr', 'ExtIt', 'Range', 'IList')]
        ast = self.tr.parse(self.f)
        lines = self.block(ast, 1, tail=True)
        if not lines:
            lines = ['  return ()'] if self.ret_ty == 'Unit' else None
        if lines is None:
            raise ExtractError('empty body of a non-void function')
        if self.ret_ty == 'Unit' and lines[-1].lstrip().startswith('let '):
            lines.append('  return ()')
        return lines

    # ---- statements
    def block(self, stmts, ind, tail):
        """render a statement list; `tail`: the list is in tail position of the function"""
        pad = '  ' * ind
        out = []
        stmts = self.flatten(stmts)
        for idx, st in enumerate(stmts):
            rest = stmts[idx + 1:]
            kind = st[0]
            if kind == 'assert':
                c = self.to_bool(self.expr(st[1]))
                out.append('%sassert %s' % (pad, paren(c.term())))
            elif kind == 'sizecheck':
                mac = self.tr.size_check_macro
                if isinstance(mac, ExtractError):
                    raise ExtractError('SBEPP_SIZE_CHECK: %s' % mac)
                mparams, mexpr, _text = mac
                if len(mparams) != len(st[1]):
                    raise ExtractError('SBEPP_SIZE_CHECK: %d arguments' % len(st[1]))
                e = subst(mexpr, dict(zip(mparams, st[1])))
                c = self.to_bool(self.expr(e))
                out.append('%sassert %s' % (pad, paren(c.term())))
            elif kind == 'decl':
                _k, ty, name, init, braced = st
                if init is None:
                    if ty is None:
                        raise ExtractError('auto without initialiser')
                    t = self.tr.resolve_type(ty, self.f.tparams)
                    if t not in ('Size', 'Byte', 'PtrDiff'):
                        raise ExtractError('value-initialisation of %s' % t)
                    e = E('0' if t != 'PtrDiff' else '(0 : Int)', t)
                else:
                    e = self.expr(init)
                    if ty is not None:
                        e = self.convert(e, self.tr.resolve_type(ty, self.f.tparams), 'initialisation of %s' % name)
                    elif e.ty == 'IntLit':
                        raise ExtractError('auto deduced from an int literal')
                if e.ty in ('Unit', 'Lambda'):
                    raise ExtractError('declaration of type %s' % e.ty)
                self.env[name] = e.ty
                if e.action:
                    out.append('%slet %s ← %s' % (pad, name, e.text))
                elif ty is not None and not e.eff:
                    out.append('%slet %s : %s := %s' % (pad, name, LEAN_TY[e.ty], e.text))
                else:
                    out.append('%slet %s := %s' % (pad, name, e.text))
            elif kind == 'expr':
                out += self.expr_stmt(st[1], pad)
            elif kind == 'return':
                if st[1] is None:
                    if self.ret_ty != 'Unit':
                        raise ExtractError('return without a value')
                    out.append('%sreturn ()' % pad)
                else:
                    e = self.convert(self.expr(st[1]), self.ret_ty, 'return')
                    out.append('%sreturn %s' % (pad, e.term()))
                if rest:
                    raise ExtractError('statements after return')
                return out
            elif kind == 'if':
                _k, c, then, els = st
                cond = self.to_bool(self.expr(c))
                if cond.lit is not None:
                    # configuration constant: the discarded branch is not translated
                    chosen = list(then if cond.lit else (els or []))
                    seq = chosen if terminates(chosen) else chosen + list(rest)
                    out += self.block(seq, ind, tail)
                    return out
                out.append('%sif %s then' % (pad, cond.term()))
                saved = dict(self.env)
                if els is None and terminates(then) and rest:
                    out += self.block(then, ind + 1, tail) or ['%s  pure ()' % pad]
                    self.env = dict(saved)
                    out.append('%selse' % pad)
                    out += self.block(rest, ind + 1, tail) or ['%s  pure ()' % pad]
                    self.env = saved
                    return out
                tl = self.block(then, ind + 1, tail and not rest)
                out += tl or ['%s  pure ()' % pad]
                self.env = dict(saved)
                if els is not None:
                    out.append('%selse' % pad)
                    el = self.block(els, ind + 1, tail and not rest)
                    out += el or ['%s  pure ()' % pad]
                    self.env = saved
            elif kind == 'for':
                out += self.for_loop(st, ind)
            elif kind == 'block':
                saved = dict(self.env)
                out += self.block(st[1], ind, tail and not rest)
                self.env = saved
            else:
                raise ExtractError('statement kind %s' % kind)
        return out

    def flatten(self, stmts):
        """select preprocessor branches of the configuration"""
        out = []
        for st in stmts:
            if st[0] == 'pp':
                dim = PP_MACROS[st[1]]
                self.used.add(dim)
                out += self.flatten(st[2] if self.config[dim] else st[3])
            else:
                out.append(st)
        return out

    def expr_stmt(self, e, pad):
        if e[0] == 'assign':
            _k, op, lhs, rhs = e
            if op != '=':
                return self.mutation(e, pad)
            if lhs[0] == 'un' and lhs[1] == '*':
                p = self.expr(lhs[2])
                if p.ty != 'Ptr':
                    raise ExtractError('store through %s' % p.ty)
                v = self.convert(self.expr(rhs), 'Byte', 'store')
                return ['%sstore %s %s' % (pad, paren(p.term()), paren(v.term()))]
            if lhs[0] == 'index':
                a = self.expr(lhs[1])
                i = self.convert(self.expr(lhs[2]), 'Size', 'index')
                if a.ty != 'Ptr':
                    raise ExtractError('store through %s' % a.ty)
                v = self.convert(self.expr(rhs), 'Byte', 'store')
                return ['%sstore (ptrAdd %s %s) %s' % (pad, paren(a.term()), paren(i.term()), paren(v.term()))]
            return self.mutation(e, pad)
        if e[0] in ('postfix',) or (e[0] == 'un' and e[1] in ('++', '--')):
            return self.mutation(e, pad)
        x = self.expr(e)
        if not x.action:
            if x.eff:
                return ['%slet _ := %s' % (pad, x.text)]
            raise ExtractError('expression statement without effect')
        if x.ty == 'Unit':
            return ['%s%s' % (pad, x.text)]
        return ['%slet _ ← %s' % (pad, x.text)]

    def mutation(self, e, pad):
        """`x++`, `++x`, `x = e`, `x += e` on a local variable -> rebinding"""
        if e[0] == 'assign':
            _k, op, lhs, rhs = e
            if lhs[0] != 'id' or lhs[1] not in self.env:
                raise ExtractError('assignment to a non-local')
            name = lhs[1]
            if op == '=':
                v = self.convert(self.expr(rhs), self.env[name], 'assignment')
            else:
                v = self.convert(self.expr(('bin', op[0], lhs, rhs)), self.env[name], 'assignment')
        else:
            op = e[1]
            tgt = e[2]
            if tgt[0] != 'id' or tgt[1] not in self.env:
                raise ExtractError('%s of a non-local' % op)
            name = tgt[1]
            t = self.env[name]
            if t == 'CStr' and op == '++':
                v = E('extNext %s' % name, 'CStr', action=True)
            else:
                v = self.convert(self.expr(('bin', '+' if op == '++' else '-', tgt, ('int', 1))), t, op)
        if v.action:
            return ['%slet %s ← %s' % (pad, name, v.text)]
        return ['%slet %s := %s' % (pad, name, v.text)]

    def mutated(self, stmts_or_exprs):
        """names of locals assigned in a list of expressions/statements, in order"""
        out = []

        def walk(x):
            if isinstance(x, tuple):
                if x and x[0] == 'assign' and x[2][0] == 'id':
                    if x[2][1] not in out:
                        out.append(x[2][1])
                    walk(x[3])
                    return
                if x and (x[0] == 'postfix' or (x[0] == 'un' and x[1] in ('++', '--'))) and x[2][0] == 'id':
                    if x[2][1] not in out:
                        out.append(x[2][1])
                    return
                if x and x[0] == 'decl':
                    raise ExtractError('declaration inside a loop')
                if x and x[0] == 'return':
                    raise ExtractError('return inside a loop')
                for y in x:
                    walk(y)
            elif isinstance(x, list):
                for y in x:
                    walk(y)
        walk(stmts_or_exprs)
        return out

    def for_loop(self, st, ind):
        _k, init, cond, step, body = st
        pad = '  ' * ind
        out = []
        if init is not None:
            out += self.block([init], ind, False)
        if cond is None:
            raise ExtractError('for loop without a condition')
        if self.mutated([cond]):
            raise ExtractError('loop condition with side effects on locals')
        seq = list(body) + [('expr', s) for s in step]
        vars_ = self.mutated(seq)
        if not vars_:
            raise ExtractError('loop without loop-carried variable')
        for n in vars_:
            if n not in self.env:
                raise ExtractError('loop assigns non-local %s' % n)
        pat = vars_[0] if len(vars_) == 1 else '(%s)' % ', '.join(vars_)
        c = self.to_bool(self.expr(cond))
        saved = dict(self.env)
        inner = self.block(self.flatten(seq), ind + 2, False)
        if self.env != saved:
            raise ExtractError('loop changes the type of a variable')
        objs = ' ++ '.join({'CStr': 'CStr.objs %s', 'ExtIt': '[%s.mem]', 'Range': '[%s]', 'IList': '[%s]'}[t] % n
                           for n, t in self.ext_params) or '[]'
        out.append('%slet %s ← forLoop' % (pad, pat))
        out.append('%s  (fun %s => do' % (pad, pat))
        out.append('%s    %s)' % (pad, c.text if c.action else 'pure %s' % paren(c.text)))
        out.append('%s  (fun %s => do' % (pad, pat))
        out += inner
        out.append('%s    pure %s)' % (pad, pat))
        out.append('%s  (← memBound %s) %s' % (pad, paren(objs), pat))
        return out

    # ---- expressions
    def to_bool(self, e):
        if e.ty == 'Bool':
            return e
        if e.ty == 'Ptr':
            return E('ptrToBool %s' % paren(e.term()), 'Bool', e.eff)
        if e.ty in ('NPtr', 'CStr'):
            return E('%s.isSome' % paren(e.term()), 'Bool', e.eff)
        if e.ty in ('Size', 'Byte'):
            return E('(%s != 0)' % e.term(), 'Bool', e.eff)
        raise ExtractError('%s used as a condition' % e.ty)

    def to_int(self, e):
        """mathematical value as a Lean `Int` term"""
        if e.ty == 'IntLit':
            return '(%d : Int)' % e.lit
        if e.ty == 'Size':
            return 'Int.ofNat %s' % paren(e.term())
        if e.ty == 'PtrDiff':
            return paren(e.term())
        raise ExtractError('%s in integer arithmetic' % e.ty)

    def convert(self, e, ty, what):
        """implicit conversion of `e` to model type `ty`"""
        if e.ty == ty:
            return e
        if e.ty == 'IntLit':
            if ty in ('Size', 'Byte'):
                if e.lit < 0:
                    return E('toSizeT (%d : Int)' % e.lit, ty) if ty == 'Size' else self.bad(e, ty, what)
                return E('%d' % e.lit, ty)
            if ty == 'PtrDiff':
                return E('(%d : Int)' % e.lit, ty)
            if ty == 'Bool':
                return E('true' if e.lit else 'false', ty)
        if e.ty == 'PtrDiff' and ty == 'Size':
            return E('toSizeT %s' % paren(e.term()), 'Size', e.eff)
        if e.ty == 'Nullptr' and ty in ('NPtr', 'CStr'):
            return E('none', ty)
        if e.ty == 'Ptr' and ty == 'NPtr':
            return E('some %s' % paren(e.term()), ty, e.eff)
        if ty == 'Bool' and e.ty in ('Ptr', 'NPtr', 'CStr'):
            return self.to_bool(e)
        if {e.ty, ty} == {'Range', 'IList'}:
            return E(e.text, ty, e.eff, e.action)
        return self.bad(e, ty, what)

    def bad(self, e, ty, what):
        raise ExtractError('%s: no conversion from %s to %s' % (what, e.ty, ty))

    def expr(self, x):
        k = x[0]
        if k == 'int':
            return E(str(x[1]), 'IntLit', lit=x[1])
        if k == 'char':
            return E(str(x[1]), 'Byte')
        if k == 'bool':
            return E('true' if x[1] else 'false', 'Bool')
        if k == 'nullptr':
            return E('none', 'Nullptr')
        if k == 'id':
            return self.ident(x[1])
        if k == 'un':
            return self.unary(x)
        if k == 'bin':
            return self.binary(x)
        if k == 'index':
            a = self.expr(x[1])
            i = self.convert(self.expr(x[2]), 'Size', 'index')
            if a.ty != 'Ptr':
                raise ExtractError('operator[] on %s' % a.ty)
            return E('deref (ptrAdd %s %s)' % (paren(a.term()), paren(i.term())), 'Byte', action=True)
        if k == 'call':
            return self.call(x)
        if k == 'member':
            o = self.expr(x[1])
            if o.ty == 'CopyResult' and x[2] == 'out':
                return E('%s.out' % paren(o.term()), 'Ptr', o.eff)
            raise ExtractError('member %s of %s' % (x[2], o.ty))
        if k == 'cast':
            return self.cast(x[1], self.expr(x[2]))
        if k == 'brace':
            t = self.tr.resolve_type(x[1], self.f.tparams)
            if not x[2]:
                if t in ('Size', 'Byte'):
                    return E('0', t)
                raise ExtractError('value-initialisation of %s' % t)
            if len(x[2]) != 1:
                raise ExtractError('braced initialisation with %d arguments' % len(x[2]))
            a = self.expr(x[2][0])
            if t == 'RevIt' and a.ty == 'Ptr':
                return E('RevIt.mk %s' % paren(a.term()), 'RevIt', a.eff)
            return self.convert(a, t, 'braced initialisation')
        if k == 'lambda':
            return self.lambda_(x)
        if k == 'assign' or k == 'postfix':
            raise ExtractError('assignment/increment inside an expression')
        if k == 'this':
            raise ExtractError('`this` outside `(*this)(tag{})`')
        raise ExtractError('expression kind %s' % k)

    def ident(self, name):
        if name in self.env:
            return E(name, self.env[name])
        if name == 'N' and self.f.kind == 'member':
            return E('v.N', 'Size')
        m = re.fullmatch(r'(?:sbepp::)?eos_null::(\w+)', name)
        if m:
            if m.group(1) not in ('none', 'single', 'all'):
                raise ExtractError('unknown enumerator %s' % name)
            return E('EosNull.%s' % m.group(1), 'Eos')
        raise ExtractError('unknown identifier %s' % name)

    def unary(self, x):
        _k, op, a = x
        if op == '!':
            e = self.to_bool(self.expr(a))
            if e.lit is not None:
                return E('true' if not e.lit else 'false', 'Bool', lit=not e.lit)
            if e.action:
                return E('(!%s)' % e.term(), 'Bool', True)
            return E('(!%s)' % e.text, 'Bool', e.eff)
        if op == '*':
            e = self.expr(a)
            if e.ty == 'Ptr':
                return E('deref %s' % paren(e.term()), 'Byte', action=True)
            if e.ty == 'CStr':
                return E('derefExt %s' % paren(e.term()), 'Byte', action=True)
            raise ExtractError('dereference of %s' % e.ty)
        if op == '-':
            e = self.expr(a)
            if e.ty == 'IntLit':
                return E(str(-e.lit), 'IntLit', lit=-e.lit)
            if e.ty == 'PtrDiff':
                return E('(- %s)' % paren(e.term()), 'PtrDiff', e.eff)
            if e.ty == 'Size':
                return E('toSizeT (- %s)' % self.to_int(e), 'Size', e.eff)
        if op == '+':
            e = self.expr(a)
            if e.ty in ('IntLit', 'PtrDiff', 'Size'):
                return e
        raise ExtractError('unary %s' % op)

    def binary(self, x):
        _k, op, xa, xb = x
        a, b = self.expr(xa), self.expr(xb)
        eff = a.eff or b.eff
        if op in ('&&', '||'):
            a, b = self.to_bool(a), self.to_bool(b)
            if a.lit is not None or b.lit is not None:
                raise ExtractError('configuration constant inside %s' % op)
            if eff:
                f = 'landM' if op == '&&' else 'lorM'

                def thunk(e):
                    return '(do %s)' % e.text if e.action else '(do pure %s)' % paren(e.text)
                return E('%s %s %s' % (f, thunk(a), thunk(b)), 'Bool', action=True)
            return E('(%s %s %s)' % (a.text, op, b.text), 'Bool')
        if op in ('+', '-'):
            if a.ty == 'Ptr' and b.ty in ('Size', 'IntLit') and op == '+':
                b = self.convert(b, 'Size', 'pointer arithmetic')
                return E('ptrAdd %s %s' % (paren(a.term()), paren(b.term())), 'Ptr', eff)
            if b.ty == 'Ptr' and a.ty in ('Size', 'IntLit') and op == '+':
                a = self.convert(a, 'Size', 'pointer arithmetic')
                return E('ptrAdd %s %s' % (paren(b.term()), paren(a.term())), 'Ptr', eff)
            if op == '-' and a.ty == 'Ptr' and b.ty == 'Ptr':
                return E('ptrDiff %s %s' % (paren(a.term()), paren(b.term())), 'PtrDiff', eff)
            if op == '-' and a.ty == 'NPtr' and b.ty == 'Ptr':
                return E('nptrDiff %s %s' % (paren(a.term()), paren(b.term())), 'PtrDiff', action=True)
            if op == '-' and a.ty == 'RevIt' and b.ty == 'RevIt':
                return E('RevIt.diff %s %s' % (paren(a.term()), paren(b.term())), 'PtrDiff', eff)
        if op in ('+', '-', '*'):
            ints = ('IntLit', 'Size', 'PtrDiff')
            if a.ty in ints and b.ty in ints:
                if a.ty == 'IntLit' and b.ty == 'IntLit':
                    v = {'+': a.lit + b.lit, '-': a.lit - b.lit, '*': a.lit * b.lit}[op]
                    return E(str(v), 'IntLit', lit=v)
                t = '%s %s %s' % (self.to_int(a), op, self.to_int(b))
                if 'Size' in (a.ty, b.ty):
                    return E('toSizeT (%s)' % t, 'Size', eff)
                return E('(%s)' % t, 'PtrDiff', eff)
        if op in ('/', '%'):
            raise ExtractError('operator %s is not supported' % op)
        if op in ('<', '<=', '>', '>='):
            lean_op = {'<': '<', '<=': '≤', '>': '>', '>=': '≥'}[op]
            ints = ('IntLit', 'Size', 'PtrDiff')
            if a.ty in ints and b.ty in ints:
                if 'Size' in (a.ty, b.ty):
                    a, b = self.convert(a, 'Size', op), self.convert(b, 'Size', op)
                    return E('decide (%s %s %s)' % (a.term(), lean_op, b.term()), 'Bool', eff)
                if a.ty == 'IntLit' and b.ty == 'IntLit':
                    raise ExtractError('comparison of two literals')
                return E('decide (%s %s %s)' % (self.to_int(a), lean_op, self.to_int(b)), 'Bool', eff)
            if a.ty == 'Ptr' and b.ty == 'Ptr':
                return E('decide (%s %s %s)' % (a.term(), lean_op, b.term()), 'Bool', eff)
            raise ExtractError('%s between %s and %s' % (op, a.ty, b.ty))
        if op in ('==', '!='):
            if 'Nullptr' in (a.ty, b.ty):
                o = b if a.ty == 'Nullptr' else a
                if o.ty not in ('NPtr', 'CStr'):
                    raise ExtractError('%s compared with nullptr' % o.ty)
                return E('%s.%s' % (paren(o.term()), 'isNone' if op == '==' else 'isSome'), 'Bool', eff)
            if a.ty == 'IntLit' and b.ty in ('Size', 'Byte', 'PtrDiff'):
                a = self.convert(a, b.ty, op)
            if b.ty == 'IntLit' and a.ty in ('Size', 'Byte', 'PtrDiff'):
                b = self.convert(b, a.ty, op)
            if {a.ty, b.ty} == {'Size', 'PtrDiff'}:
                a, b = self.convert(a, 'Size', op), self.convert(b, 'Size', op)
            if a.ty == b.ty and a.ty in ('Size', 'Byte', 'PtrDiff', 'Ptr', 'Eos', 'RevIt', 'Bool'):
                return E('(%s %s %s)' % (a.term(), op, b.term()), 'Bool', eff)
            raise ExtractError('%s between %s and %s' % (op, a.ty, b.ty))
        raise ExtractError('%s between %s and %s' % (op, a.ty, b.ty))

    def cast(self, ty_toks, e):
        t = [v for v in ty_toks if v not in ('const', 'volatile')]
        if t and t[-1] == '*':
            # pointer cast: the pointee must be the element type; nullability is kept
            tgt = self.tr.resolve_type(t, self.f.tparams)
            if tgt == 'Ptr' and e.ty in ('Ptr', 'NPtr'):
                return e
            raise ExtractError('cast of %s to %s' % (e.ty, ' '.join(ty_toks)))
        tgt = self.tr.resolve_type(t, self.f.tparams)
        if tgt == 'Ptr' and e.ty in ('Ptr', 'NPtr'):
            return e
        if tgt == 'Bool':
            return self.to_bool(e)
        if tgt == 'Size' and e.ty == 'Size':
            return e
        return self.convert(e, tgt, 'cast')

    def lambda_(self, x):
        _k, params, body = x
        if len(body) != 1 or body[0][0] != 'return' or body[0][1] is None:
            raise ExtractError('lambda body is not a single return')
        saved = dict(self.env)
        binders = []
        for ty, name in params:
            t = self.tr.resolve_type(ty, self.f.tparams)
            self.env[name] = t
            binders.append('(%s : %s)' % (name, LEAN_TY[t]))
        e = self.expr(body[0][1])
        self.env = saved
        if e.eff:
            raise ExtractError('lambda with effects')
        if e.ty != 'Bool':
            raise ExtractError('lambda returning %s' % e.ty)
        return E('(fun %s => %s)' % (' '.join(binders), e.text), 'Lambda:%s' % ','.join(
            self.tr.resolve_type(ty, self.f.tparams) for ty, _n in params))

    def call(self, x):
        _k, fx, args = x
        # (*this)(detail::tag{})
        if fx == ('un', '*', ('this',)):
            if len(args) == 1 and args[0][0] == 'brace' and not args[0][2]:
                tag = ''.join(args[0][1]).split('::')[-1]
                if tag == 'addressof_tag':
                    return E('v.beginPtr', 'Ptr')
                if tag == 'end_ptr_tag':
                    return E('v.endPtr', 'Ptr')
            raise ExtractError('unsupported call on *this')
        if fx[0] == 'tmpl':
            name, ty = fx[1], fx[2]
            if len(args) != 1:
                raise ExtractError('%s with %d arguments' % (name, len(args)))
            a = self.expr(args[0])
            if name in ('std::forward', 'std::move'):
                return a
            if name == 'static_cast':
                return self.cast(ty, a)
            raise ExtractError('%s is not supported' % name)
        if fx[0] == 'member':
            o = self.expr(fx[1])
            if o.ty == 'IList' and fx[2] == 'size' and not args:
                return E('%s.length' % paren(o.term()), 'Size', o.eff)
            raise ExtractError('member call %s on %s' % (fx[2], o.ty))
        if fx[0] != 'id':
            raise ExtractError('call of a computed callee')
        name = fx[1]
        if name in ('is_constant_evaluated', 'detail::is_constant_evaluated', 'sbepp::detail::is_constant_evaluated'):
            if args:
                raise ExtractError('is_constant_evaluated with arguments')
            self.used.add('ce')
            v = self.config['ce']
            return E('true' if v else 'false', 'Bool', lit=v)
        ea = [self.expr(a) for a in args]
        short = name[len('detail::'):] if name.startswith('detail::') else name
        if short in self.tr.by_cxx or any(short == c for c, _p, _l, _e in METHODS + FREE):
            return self.call_own(short, ea)
        return self.call_std(name, ea)

    def call_own(self, name, ea):
        cands = []
        for f in self.tr.by_cxx.get(name, []):
            try:
                ptys = [self.tr.resolve_type(ty, f.tparams) for ty, _n, _d in f.params]
            except ExtractError:
                continue
            if len(ptys) < len(ea):
                continue
            if any(not d for (_t, _n, d) in f.params[len(ea):]):
                continue
            try:
                conv = [self.convert(a, t, 'argument') for a, t in zip(ea, ptys)]
            except ExtractError:
                continue
            if len(ea) < len(ptys):
                # default arguments
                for (ty, _n, d), t in list(zip(f.params, ptys))[len(ea):]:
                    p = Parser([tk for tk in tokenize(' '.join(d))], self.tr.is_type)
                    conv.append(self.convert(self.expr(p.expr()), t, 'default argument'))
            cands.append((f, conv))
        if len(cands) != 1:
            for c, ptys, lean, _e in METHODS + FREE:
                if c == name and lean in self.tr.failed:
                    raise ExtractError('callee %s: %s' % (lean, self.tr.failed[lean]))
            raise ExtractError('call of %s(%s): %d candidates' % (name, ', '.join(a.ty for a in ea), len(cands)))
        f, conv = cands[0]
        if f.lean in self.stack:
            raise ExtractError('recursive call of %s' % f.lean)
        deps = self.tr.deps(f.lean, self.stack)
        self.used |= deps
        mname, _ = self.tr.variant(f.lean, self.config)
        self.callees.append(f.lean)
        ret = self.tr.resolve_type(f.ret_toks, f.tparams)
        v = 'v ' if f.kind == 'member' else ''
        if f.kind == 'member' and self.f.kind != 'member':
            raise ExtractError('member call from a free function')
        return E(('%sM %s%s' % (mname, v, ' '.join(paren(a.term()) for a in conv))).rstrip(), ret, action=True)

    def call_std(self, name, ea):
        tys = tuple(a.ty for a in ea)

        def arg(i, ty):
            return paren(self.convert(ea[i], ty, 'argument %d of %s' % (i + 1, name)).term())
        if name == 'std::strlen' and tys == ('CStr',):
            return E('stdStrlen %s' % arg(0, 'CStr'), 'Size', action=True)
        if name == 'std::memchr' and len(ea) == 3 and tys[0] == 'Ptr' and tys[1] in ('Byte', 'IntLit'):
            return E('stdMemchr %s %s %s' % (arg(0, 'Ptr'), arg(1, 'Byte'), arg(2, 'Size')), 'NPtr', action=True)
        if name == 'std::copy_n' and len(ea) == 3 and tys[0] == 'CStr' and tys[2] == 'Ptr':
            return E('stdCopyN %s %s %s' % (arg(0, 'CStr'), arg(1, 'Size'), arg(2, 'Ptr')), 'Ptr', action=True)
        if name == 'std::copy' and tys == ('ExtIt', 'ExtIt', 'Ptr'):
            return E('stdCopy %s %s %s' % (arg(0, 'ExtIt'), arg(1, 'ExtIt'), arg(2, 'Ptr')), 'Ptr', action=True)
        if name == 'std::ranges::copy' and len(ea) == 2 and tys[0] in ('Range', 'IList') and tys[1] == 'Ptr':
            return E('rangesCopy %s %s' % (arg(0, 'Range'), arg(1, 'Ptr')), 'CopyResult', action=True)
        if name == 'std::fill_n' and len(ea) == 3 and tys[0] == 'Ptr':
            return E('stdFillN %s %s %s' % (arg(0, 'Ptr'), arg(1, 'Size'), arg(2, 'Byte')), 'Ptr', action=True)
        if name == 'std::fill' and len(ea) == 3 and tys[:2] == ('Ptr', 'Ptr'):
            return E('stdFill %s %s %s' % (arg(0, 'Ptr'), arg(1, 'Ptr'), arg(2, 'Byte')), 'Unit', action=True)
        if name == 'std::find_if' and len(ea) == 3 and tys[:2] == ('RevIt', 'RevIt') and tys[2] == 'Lambda:Byte':
            return E('stdFindIfRev %s %s %s' % (arg(0, 'RevIt'), arg(1, 'RevIt'), ea[2].text), 'RevIt', action=True)
        if name in ('std::begin', 'std::end') and tys in (('Range',), ('IList',)):
            return E('%s %s' % ('stdBegin' if name == 'std::begin' else 'stdEnd', paren(ea[0].term())), 'ExtIt', ea[0].eff)
        raise ExtractError('call %s(%s) is outside the translated subset' % (name, ', '.join(tys)))


def terminates(stmts):
    """every path through the statement list ends in `return`"""
    if not stmts:
        return False
    last = stmts[-1]
    if last[0] == 'return':
        return True
    if last[0] == 'if' and last[3] is not None:
        return terminates(last[2]) and terminates(last[3])
    if last[0] == 'block':
        return terminates(last[1])
    return False


def subst(x, m):
    if isinstance(x, tuple):
        if x and x[0] == 'id' and x[1] in m:
            return m[x[1]]
        return tuple(subst(y, m) for y in x)
    if isinstance(x, list):
        return [subst(y, m) for y in x]
    return x


# ------------------------------------------------------------------ output

def wrapper(tr, lean, mname, fe):
    """Outcome-valued definition with the signature of the hand model"""
    binders, args = [], []
    params = fe.params
    i = 0
    while i < len(params):
        n, t = params[i]
        if t == 'CStr':
            binders.append('(%s : Option (List Nat))' % n)
            args.append('(CStr.ofMem %s)' % n)
        elif t == 'ExtIt' and i + 1 < len(params) and params[i + 1][1] == 'ExtIt':
            # an iterator pair is one sequence: first = begin, last = end
            binders.append('(r : List Nat)')
            args += ['(stdBegin r)', '(stdEnd r)']
            i += 1
        elif t == 'ExtIt':
            raise ExtractError('single input iterator parameter')
        else:
            binders.append('(%s : %s)' % (n, LEAN_TY[t]))
            args.append(n)
        i += 1
    ret = 'retVoid' if fe.ret_ty == 'Unit' else 'retVal'
    if fe.ret_ty not in ('Unit', 'Ptr', 'Size'):
        raise ExtractError('entry point returning %s' % fe.ret_ty)
    return 'def %s %s : Outcome :=\n  %s (%s) buf\n' % (
        mname, ' '.join(['(v : View)', '(buf : List Nat)'] + binders), ret, ' '.join([mname + 'M', 'v'] + args))


def dedent(body):
    lines = [l.rstrip() for l in body.split('\n') if l.strip()]
    ind = min((len(l) - len(l.lstrip()) for l in lines if not l.lstrip().startswith('#')), default=0)
    return '\n'.join(l[ind:] if not l.lstrip().startswith('#') else l.lstrip() for l in lines)


def header(sha):
    return ('-- GENERATED by /verif/extract/methods_staticarray.py from %s on every check run. Do not edit.\n'
            '-- Source: %s, class sbepp::detail::%s and detail::string_length.\n'
            '--\n'
            '-- One `def <name>M` per member function and configuration (suffix `CE`: the branch taken when\n'
            '-- `is_constant_evaluated()`; suffix `Ranges`: `#if SBEPP_HAS_RANGES`), rendered statement by statement\n'
            '-- from the parsed C++ text; `def <name>`: the same with the signature of the hand model\n'
            '-- `Sbepp.Rt.StaticArray.<name>` (`Lemmas/StaticArrayTie.lean` proves them equal).\n'
            '--\n'
            '-- C++ typing assumed by the translator (LP64): std::size_t = unsigned 64 bit (`toSizeT` at every\n'
            '-- conversion to it: static_cast, return type, mixed size_t/ptrdiff_t arithmetic, SBEPP_SIZE_CHECK),\n'
            '-- pointer / reverse-iterator difference = mathematical Int (`ptrDiff`, `RevIt.diff`), pointers and\n'
            '-- iterators into the view = indices into the modelled memory, element comparison only ==/!=,\n'
            '-- character and int literals are their values, operands evaluated left to right, a template-typed\n'
            '-- by-value parameter is an input iterator, `R&&` a range, a loop gets |modelled memory| + 1\n'
            '-- iterations of fuel.  Primitives (not translated, specified in Rt/StaticArray.lean): std::strlen,\n'
            '-- memchr, copy, copy_n, ranges::copy, fill, fill_n, find_if, begin/end, reverse_iterator,\n'
            '-- byte_range::operator()(addressof_tag / end_ptr_tag).\n'
            'import Sbepp.Rt.StaticArray\n\n'
            'set_option linter.unusedVariables false\n\n'
            'namespace Sbepp.Extracted.StaticArray\nopen Sbepp.Rt.StaticArray\n\n') % (HPP, HPP, CLASS)


def extract(repo, outdir):
    path = os.path.join(repo, HPP)
    raw = open(path, encoding='utf-8').read()
    sha = hashlib.sha256(raw.encode()).hexdigest()
    report = {'source': HPP, 'sha256': sha, 'methods': {}, 'failed': {}, 'ignored': []}
    defs = []
    try:
        tr = Translator(strip_comments(raw))
        tr.collect()
    except (ExtractError, ValueError, AssertionError, IndexError, KeyError) as ex:
        report['failed']['class'] = str(ex)
        write_if_changed(os.path.join(outdir, OUT), header(sha) + '-- EXTRACTION FAILED: %s\n\nend Sbepp.Extracted.StaticArray\n'
                         % str(ex).replace('\n', ' '))
        return report
    # dependency order: callees first, otherwise source order
    names = sorted(tr.funcs, key=lambda n: tr.funcs[n].line)
    done = []
    emitted = {}

    def visit(lean, stack=()):
        if lean in emitted or lean in tr.failed:
            return
        if lean in stack:
            tr.failed[lean] = 'recursive'
            return
        try:
            variants = tr.emit(lean)
            for _n, _c, fe, _b in variants:
                for c in fe.callees:
                    visit(c, stack + (lean,))
                    if c in tr.failed:
                        raise ExtractError('callee %s: %s' % (c, tr.failed[c]))
            if tr.funcs[lean].entry:
                for n, _c, fe, _b in variants:
                    wrapper(tr, lean, n, fe)
        except (ExtractError, ValueError, AssertionError, IndexError, KeyError, RecursionError) as ex:
            tr.failed[lean] = str(ex) or type(ex).__name__
            return
        emitted[lean] = variants
        done.append(lean)

    for n in names:
        visit(n)
    for lean in done:
        f = tr.funcs[lean]
        for mname, config, fe, body in emitted[lean]:
            cfg = ', '.join('%s=%d' % (d, config[d]) for d in CONFIG_DIMS if d in tr.deps(lean)) or 'all configurations'
            binders = ' '.join('(%s : %s)' % (n, LEAN_TY[t]) for n, t in fe.params)
            sig = cxx.normalise_keep_words(f.head)
            doc = '/-- `%s`, sbepp.hpp:%d  [%s]\n```\n%s\n```-/' % (
                sig.replace('-/', '- /'), f.line, cfg, dedent(f.body).replace('-/', '- /'))
            sigl = ' '.join(x for x in ('(v : View)' if f.kind == 'member' else '', binders) if x)
            defs.append('%s\ndef %sM %s : M %s := do\n%s\n' % (
                doc, mname, sigl, LEAN_TY[fe.ret_ty], '\n'.join(body)))
            if f.entry:
                defs.append(wrapper(tr, lean, mname, fe))
            report['methods'][mname] = {'line': f.line, 'cxx': '%s(%s)' % (f.cxx_name, ', '.join(t for _n, t in fe.params)),
                                        'text': cxx.normalise_keep_words(f.body)}
    report['failed'] = dict(tr.failed)
    report['ignored'] = sorted(set(tr.ignored))
    if not isinstance(tr.size_check_macro, ExtractError):
        report['SBEPP_SIZE_CHECK'] = tr.size_check_macro[2]
    fails = ''.join('-- EXTRACTION FAILED: %s: %s\n' % (k, str(v).replace('\n', ' ')) for k, v in sorted(tr.failed.items()))
    text = header(sha) + fails + ('\n' if fails else '') + '\n'.join(defs) + '\nend Sbepp.Extracted.StaticArray\n'
    write_if_changed(os.path.join(outdir, OUT), text)
    return report
