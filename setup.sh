#!/bin/sh
# Build the framework from files on disk only (offline): regenerate the
# extracted Lean modules from /repo, build the Lean library (proofs) and the
# model driver.  C++ harnesses are built (and cached by content hash) by the
# checks themselves.
set -e
cd "$(dirname "$0")"
python3 -c "
import sys; sys.path.insert(0,'.')
from extract import run_all
r = run_all.run('${VERIF_REPO:-/repo}', 'lean/Sbepp/Extracted')
print('extraction failures:', r['failed'])
"
cd lean
lake build
