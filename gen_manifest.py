#!/usr/bin/env python3
"""Writes MANIFEST.json from the table below (kept in one place so that the
manifest stays valid while properties are added)."""
import json

CHECKS = {
 'C15': dict(
   technique='Lean 4 proof over kernels extracted from sbepp.hpp on every run + differential correspondence (C++ harness vs model vs spec)',
   text='Theorems get_bit_spec/set_bit_spec/set_then_get/set_bit_eq_spec: for all four underlying types, every value and every index inside the width, the extracted get/set kernels (C++ integer semantics incl. promotion and UB) compute exactly Nat.testBit / the single-bit update. The kernels are re-extracted from bitset_base on every run, so an edit to the shift/mask expressions breaks a proof obligation; the harness then searches for a failing input.',
   note='Trusted: Lean kernel, extract/cxx.py expression translator, CInt.lean encoding of C++ integer rules, the C++ harness. Generated choice accessors pass the index as a literal (checked by Layer G in C18/C01 when available). Constant evaluation not separately executed.'),
}
CHECKS.update({
 'C14': dict(
   technique='Lean 4 proof (induction over unbounded N/contents, framed buffer) of a hand-transliterated model against a list specification + exhaustive small-scope differential correspondence incl. compile-time constant-evaluation tables',
   text='30 theorems: run_agrees_spec (model = specification for every operation, eos mode and input length), per-overload *_spec, assign_frame (nothing outside the array changes), no_assert_in_contract / assert_outside_contract, strlen_spec / strlen_r_spec / strlen_ce_spec, uniqueness of the specification. The model is hand-written; the correspondence check runs the real static_array_ref (guard bytes on both sides, checked build, 5 source-range kinds, both byte types) and the model on the same requests: exhaustive for N<=4 (quick) / N<=6 (thorough) over a 3-letter alphabet.',
   note='Trusted: Lean kernel; the hand transliteration Rt/StaticArray.lean is tied to the code only by the differential check (bounded scope); harness; compilers. Copy-before-assert overflow of assign_range with over-long input is outside the precondition (proved as assign_range_overflow, relevant to C10).'),
 'C02': dict(
   technique='Lean 4 proof by mutual structural induction over the nested group tree (runtime walk model = value tree, any nesting/counts/lengths) + Layer R: real sbeppc output compiled into generated drivers decoding reference images printed by the Lean specification',
   text='decode_image: for every resolved layout and every well-formed image the runtime model (positions computed only from blockLength/numInGroup/length values read back from the buffer, as message_base/entry_base/group bases/dynamic_array_ref do) observes exactly the value tree, and the size it computes is the image length; scalar_roundtrip/scalar_bytes_roundtrip: get/put are mutually inverse on bit patterns (floats incl. NaN payloads are bit patterns). Correspondence: generated schemas (all primitive types, both byte orders, custom offsets/blockLengths, refs, inline composites, constants, nested groups, data, every unsigned header type) -> real sbeppc -> generated driver (random access and cursor) vs specification vs model.',
   note='Trusted: Lean kernel; the layout resolver model (Schema/Resolve.lean) and walk model are hand-written and tied to sbeppc + sbepp.hpp by the differential check only; XML->S-expression rendering in vlib/schema.py; drivers. Leaf-inside-block well-formedness is a hypothesis checked at run time per schema. Constant evaluation not exercised. Byteswap fallback formula (dead code under gcc/clang) not modelled.'),
 'C03': dict(
   technique='same theorem family as C02 stated for arbitrary wire block lengths >= compiled (schema extension) + Layer R with inflated images',
   text='decode_image_ext, size_bytes_ext, first_dynamic_member_at_wire_block_end, entry_stride (flat: header end + i*wire blockLength), entry_chain (nested). Correspondence: images whose root and per-group-instance block lengths exceed the compiled ones by 0,1,7,8 bytes, decoded by random access and cursor; sizes compared with the image length.',
   note='As C02. Known finding C03-empty-message-cursor-size (cursor-based size of a member-less message).'),
})
CHECKS.update({
 'C01': dict(
   technique='Lean 4 proof by mutual structural induction (in-order encode = wire image with gaps from previous contents; frame) + Layer R: scripted encodes through the generated setters of real sbeppc output on pre-filled buffers, byte-compared with the specification',
   text='encode_image / encode_end / encode_outside_untouched: for every layout and value tree (any nesting, counts, data lengths) the in-order encode of v over previous contents mid inside pre++mid++post leaves pre ++ image(fill v mid) ++ post and stops at the image end; setter_writes_value / setter_frame: with leaves in validator order every leaf holds its value and every non-leaf byte keeps its previous value; scalar_roundtrip for the byte order. Correspondence: 32 (quick) / 200 (thorough) generated schemas -> real sbeppc -> generated driver executing fill_message_header, every setter (random access and cursor), fill_group_header, data assign_range on random pre-filled buffers; every byte compared.',
   note='Trusted: Lean kernel; Spec.encL as the meaning of the script and the resolver model are tied to the code only by the differential check; leaf order (Sorted) is a hypothesis. Messages whose blockLength does not fit the header member are skipped (C07 matter).'),
})
CHECKS.update({
 'C05': dict(
   technique='Lean 4 proof (sizes computed by the runtime walk model = image length, any nesting/extension; encoder end position) + model of the generated trait-level formula + Layer R on generated schemas; per-type-pair kernel arithmetic of flat_group_base::size_bytes proved over the extracted kernel (C05Flat, when present)',
   text='level_size, group_size, data_size, cursor_size_after_encode, flat_level_size, trait_size_eq (the generated trait-level formula with the documented parameter meaning equals header + image length for every group tree and value, by mutual induction with a linearity lemma for aggregated entry counts), C05Flat.flat_size_exact / flat_size_mod / flat_size_model (the extracted flat_group_base::size_bytes kernel is exact for all 16 dimension type pairs whenever the size fits size_t, never UB). Correspondence: every size query of the real generated code (message, each group, each entry, each data member, cursor-based size after a full traversal, message_traits<>::size_bytes(total counts, total data)) on reference images of generated schemas, against the image length and against Gen.SizeFormula.',
   note='Trusted as C02; Gen.SizeFormula is tied to the real generated message_traits<>::size_bytes by the differential check. Known finding: cursor-based size of a member-less message.'),
 'C17': dict(
   technique='Lean 4 proof over the member-wise write model of the generated fillers (read-back and frame for arbitrary non-overlapping member layouts) + Layer R on generated header layouts',
   text='fill_values (every written member reads back the schema value when it fits), fill_frame (no other byte of the header or behind it changes; length preserved), message_filler_is_fields / group_filler_is_fields (what is written: schemaId, templateId, version, blockLength / blockLength, numInGroup, + declared numGroups/numVarDataFields), block_length_value (explicit or computed), sorted_members_disjoint. Correspondence: 40/200 generated schemas whose header composites are permuted, offset, padded, ref-typed, of every unsigned type, with optional counters; real fillers on random pre-filled buffers, all bytes compared; returned view must be the header.',
   note='Trusted as C01. Values that do not fit the member type are a C07 matter (generated code does not compile).'),
})
CHECKS.update({
 'C12': dict(
   technique='Lean 4 proof over kernels extracted from flat_group_base / random_access_iterator / nested_group_base / forward_iterator on every run, generic over the 16 dimension type pairs, + differential check (real templates over hand-declared dimension composites vs model vs Int specification, unchecked and checked builds)',
   text='25 obligations, generic over DimTy NT / DimTy BT, for every header content and step: begin_spec, end_spec, plus_spec, minus_spec, subscript_is_deref_plus, add_sub_cancel, order_matches_index (all six operators), entry_address_{subscript,front,back,iteration} (entry i at data start + i*wire blockLength, block length 0 included), forward_entry_chain, nested_size_bytes_spec, resize/clear_writes_only_numInGroup; begin_plus_size_eq_end and distance_matches_index hold under the explicit hypothesis that the step/distance is representable in difference_type (= make_signed<size_type>, pinned by the repo tests) - the unrestricted statements are kept as defs and refuted by kernel-checked witnesses (*_full_false). Correspondence: all depth<=3 iterator expressions over small groups for all 16 pairs + boundary grid (127/128/255, 32767/32768/65535, 2^31+-1, 2^32-1, 2^63, 2^64-1; block length 0,1,max) + random.',
   note='Trusted: extract/kernels_group.py (its shape table pins 22 composite bodies), CInt encoding, harness. Hypotheses: representable differences; address space [0,2^63). Checked-build assertion outcomes, post-increment/decrement, operator-> and cursor ranges are differential only / not modelled. begin()+n for n >= 2^(w-1) of the numInGroup type is inherent to difference_type and reported as such.'),
 'C13': dict(
   technique='Lean 4 refinement proof (hand-transliterated model of dynamic_array_ref vs List specification of std::vector, induction over operation histories) + differential correspondence on every run (C++ harness vs model vs spec vs the harness own std::vector)',
   text='op_refine / op_frame / ops_refine / valid_for_vector_valid_here / erase_to_end_valid / bounded_by_buffer / push_back_bounded / size_spec / size_bytes_spec: for every length width and byte order, every one of the 18 operations and every history valid for a vector whose results fit the length type and the view does not assert, returns the vector iterator, leaves prefix and payload equal to the vector size and contents, and changes no byte beyond the payload area in use. Correspondence exhaustive at depth<=2 (quick) / <=3 (thorough) from small states + long random sequences x 4 length types x 2 byte orders x 3 element types x 3/8 compiler configurations incl. the unchecked build.',
   note='Trusted: Lean kernel; Rt/DynArray.lean is hand-written and tied to /repo by the differential run only; standard algorithms modelled by their specification; harness. Out of scope of the theorems: results beyond the length type range (size()+count wraps silently - see DESIGN findings, C10 territory) and source ranges aliasing the array.'),
 'C19': dict(
   technique='Lean 4 proof that the tree reconstructed from a buffer by the runtime walk (parseL) is the encoded value tree (mutual structural induction), hence the visit-event observer on buffers equals the specified callbacks; + Layer R: recording visitor with a stop counter swept over every k on real generated code, by-tag access compared with named accessors',
   text='visit_events (callbacks = specified records for any nesting/counts/extension), parseL_flatten, visit_cursor_at_end, visit_stops (a stopped visit saw exactly the first k records), set_visit, enum_visit (value tag name or unknown). Correspondence: for generated schemas, every stopping point k of a visit of a reference image (records, stop flag, cursor at end after a complete visit, buffer unchanged); member names are taken from the traits of the tag each callback received; get_by_tag vs named accessor for every member; complete encode through set_by_tag/get_by_tag vs specification.',
   note='Trusted as C02; that the generated ||-chains invoke callbacks in schema order is established by the differential check only. Visiting a composite/enum/set stand-alone (outside a message) and on_message header visiting are not exercised.'),
})
CHECKS.update({
 'C16': dict(
   technique='Lean 4 proof over a hand-transliterated model of optional_base/required_base (both comparison configurations) and over literal tables extracted from sbepp.hpp and types_compiler.hpp on every run, + differential correspondence (C++ harness for 11 primitives x C++11..2b x g++/clang vs model vs spec) and the real sbeppc on a generated schema',
   text='25 obligations for all 11 primitives, every min/max/null triple and every bit pattern (floats as IEEE bit patterns, NaN payloads included): has_value_spec, to_bool_is_has_value, default_is_null, cmp_rules (null equals only null and orders before every value, otherwise underlying compare; both the six pre-C++20 operators and the <=>-derived relations), spaceship_well_formed, spaceship_agrees_with_operators, value_or_spec, in_range_spec, required_*; tables_extracted/defaults_match_builtins/builtins_match_sbe_table/generated_match_sbe_table: the whole generator default tables evaluate (C++ literal typing, narrowing) to the built-in types values and to the SBE table.',
   note='Trusted: hand-written Rt/Optional.lean (tied by ~130k quick / 2.9M thorough three-way comparisons), extract/tables.py, numeric_limits constants in evalLit, platform assumptions checked by the harness each run. Explicit decimal floating-point literals are only checked for NaN/INF/-INF; constant evaluation not modelled.'),
})
CHECKS.update({
 'C06': dict(
   technique='Lean 4 proof by mutual structural induction over the group tree (three invariants: valid -> remaining size + cursor = n; a potential function for the callback count; an access log) about a hand-transliterated model of size_bytes_checked_visitor + generated visit_children + cursor, with validate_and_subtract extracted from sbepp.hpp on every run, against an independent specification; Layer R: real sbeppc -> generated driver with guard-page buffers of exactly n bytes and an exact callback counter (-finstrument-functions), release and checked builds',
   text='16 obligations: vas_eq_extracted, spec_executable, checked_valid_iff_partial (valid iff the described structure fits, then size exact, for layouts without a 64-bit data length), checked_reads_below_n_partial (no read at offset >= n on buffers holding a complete structure with wire blockLengths >= compiled), checked_reads_slack (never further than n + a schema constant), checked_work_accounted / checked_work_bounded_partial (steps <= wmax*(n+2+zeroEntries)); the full-strength statements are kept as defs C06_valid_iff_full / C06_reads_below_n_full / C06_work_bounded_full and refuted by kernel-checked witnesses that the check replays on the real code on every run. Correspondence: every truncation point, 0/max/fit+-1 overwrites of every blockLength/numInGroup/length, blockLength=0 with numInGroup=max, message and group views; impl vs spec and vs model on verdict, size, FAULT point and exact callback count (~170k requests quick).',
   note='Trusted: Lean kernel; the hand model Rt/Checked.lean tied to the code only by the differential check; extract/ for one kernel; the harness hook classifying callbacks by mangled name. Six OPEN known findings (genuine defects needing a redesign of the visitor/cursor hand-over, recorded not repaired): data length prefix read before validation, fields read beyond a short wire block, unbounded loop over zero-length entries, uint64 length wrap, cursor advanced before validation (pointer-overflow UB), vacuous SBEPP_SIZE_CHECK in checked builds.'),
 'C11': dict(
   technique='Lean 4 proof over a guard table regenerated from sbepp.hpp and the generator fmt templates on every run (decide +kernel over the whole table) + induction over conversion/accessor paths of a const-ness graph; observed alongside per generated schema (real sbeppc output): detection-idiom static_asserts, negative compilation with positive twins, is_convertible matrices, read-only-page run-time probe',
   text='13 obligations: mutators_guarded (every extracted overload that reaches a write primitive carries a rejection mechanism that is false for const view bytes / const cursor bytes; 381 rows, 58 writers), conversions_guarded, guard_definitions, table_guarded, writes_consistent, conv_only_towards_const, conv_table, no_path_to_mutator / no_path_to_cursor_mutator / cursor_children_const (from a const-byte node no mutator is enabled after any list of accessor, by-tag, conversion, cursor-wrapper steps), readers_write_nothing. Observed: ~28k static_asserts, 384 negative-compile pairs, 64 read-only traversals on PROT_READ pages per quick run.',
   note='PARTIAL by nature (DESIGN 10): overload resolution, SFINAE and template instantiation are the compilers; extract/guards.py (regex/brace scraper) is trusted; enabledAt/conv are compared with the compilers through probes only.'),
})
CHECKS.update({
 'C18': dict(
   technique='Lean 4 proof relating an executable model of every traits/tags specialisation (Gen.Traits.traitTable, layout facts from the validator model) to a declarative specification by structural induction over the schema tree + per generated schema: real sbeppc -> generated C++ trait dumper reading everything through sbepp::*_traits<Tag> with a generic walk over the type_lists; three-way compare of dump, independent Python oracle computed from the schema dict, and Lean table',
   text='16 obligations: entities_complete/entities_sound (table rows = entities: types, enums, sets, composites public and inline, refs, values, choices, messages, fields, groups at any depth, data), traits_copy_attributes + ref_attributes (descriptive traits are the XML attributes), traits_derived* (presence = actual presence; block lengths; composite size; element/field offsets = validator offsets; default min/max/null = SBE table), children_lists_in_schema_order, tags_distinct (under unique sibling names), predicates_classify; ref_deprecated_full kept as def, refuted (ref_deprecated_full_false) and proved under the exact hypothesis (ref_deprecated_partial). Correspondence: every trait, *_ok type relations, traits_tag round trips, 11 predicates per tag, generic child-list walk on 20 (quick) / 120 (thorough) generated schemas.',
   note='Trusted: hand-written Gen/Traits.lean and string renderings tied to sbeppc by the differential run only; c18gen.Oracle and c18_dump.hpp helpers; decimal floating-point literals converted by Python. type_tags compared as a set; offsets of constant members not judged; size_bytes(...) left to C05. Open known finding: a <ref> inherits deprecated() from its target.'),
})
CHECKS.update({
 'C04': dict(
   technique='Lean 4 proof (generator cursor-offset fold = validator offsets; the 5 cursor classes x 10 methods = documented protocol over random-access geometry; mutual structural induction for complete traversal; resolver/compile well-formedness) + Layer G (REL/ABS/variant of every generated cursor accessor parsed from sbeppc output; assertion and size-check sites extracted from sbepp.hpp) + Layer R (generated per-schema dispatcher over (member x wrapper) running scripted call sequences through the real accessors, checked and unchecked builds)',
   text='16 obligations: cursor_abs_eq_random, compiled_accessors, cursor_rel_chain, cursor_step_{field,set,group,data}, cursor_step, cursor_step_protocol (every step of every wrapper equals the protocol specification: value/view = random access, cursor at the documented Post position, for all cursor values in checked builds and whenever Pre holds in unchecked builds), cursor_wrong_position_reported (illegal plain/dont_move/skip calls are reported before anything is read), cursor_traversal_end_{partial,image,schema}, cursor_entry_traversal_end, protocol_geometry_is_image_geometry; cursor_traversal_end_full kept as def and refuted by the member-less message witness (known finding). Streams: legal traversals with random wrappers, setters and range splits; one illegal call injected at every position; BFS of all call sequences to depth 3 (quick) / 4 (thorough) over member x wrapper; cursor_subrange preconditions; truncated views; whole-message cursor decode/encode.',
   note='Trusted: Rt/Cursor.lean (hand transliteration tied to the code by the site extractor and differential runs only); the script interpreter is a partial def; entries created from a misplaced cursor are unspecified. Known findings C03-empty-message-cursor-size(-encode).'),
 'C08': dict(
   technique='Lean 4 proof (first-error transliteration of parser + SBE validator + C++ validator <=> declarative violation list: both directions of the accept/reject decision, soundness of class + entity, cycle detection by DFS with in-progress set) + three-way differential (real sbeppc vs model vs spec) on generated schemas and every single-rule edit at every applicable position',
   text='12 obligations: C08_full (FpAgree -> NoTopLevelRef -> (check s = ok <-> Rules s): the first-error transliteration accepts exactly the schemas that break no rule), rejects_every_broken_schema / accepts_every_rule_abiding_schema, check_error_sound (+ _hash_order for the unordered_map loops, _cyclic), cycle_detection_complete, cyclic_schema_rejected, parseNum_spec, accepted_no_overlap / accepted_members_in_block, keyword_lists_agree. Correspondence: ~20k (quick) / ~130k (thorough) schemas; exit status, first diagnostic -> class (45-regex table), line -> entity; 14 rule families x positions (top-level, inline, nested, ref target, header member inline/ref, message, group depth 1-3, data).',
   note='Hypotheses FpAgree (float-literal acceptance: differential + kernel-checked boundary grid), NoTopLevelRef; the model receives the AST (XML well-formedness / missing attributes / includes are C09); keyword and primitive tables string-compared with /repo on every run; accepted_* conditional on the layout model resolving (FUEL = 64). The three findings of the first run were repaired (fixes 0013, 0017, 0018).'),
 'C09': dict(
   technique='Lean 4 proof over a pipeline model whose guard table is compared with the unchecked-access sites extracted from the sbeppc sources on every run (decide +kernel over the whole list) + refutation witnesses replayed on a hardened (ASan/UBSan/_GLIBCXX_ASSERTIONS/assert) sbeppc + structure-aware garbling differential (totality oracle)',
   text='24 obligations: unchecked_sites_covered (162 sites: .at, std::get, get_if/optional dereference, assert, [n], front/back, strto*, resize, run-time format string, recursion), crash_only_at_unguarded, run_no_crash_partial, run_terminates / run_fuel_stable / include_cycle_exhausts_any_fuel, rejected_leaves_no_files_partial, ok_writes_all_files; full-strength run_no_crash and rejected_leaves_no_files refuted with kernel-checked witnesses that the check replays on the real binary. Fuzz: 4.2k (quick) / up to 100k (thorough) garbled inputs and argv combinations, failures minimised.',
   note='PARTIAL by nature (DESIGN 10). Trusted: extract/unchecked_sites.py (regex/brace scanner), the hand classification of guarded sites (Sound env is a hypothesis, exercised only by fuzzing), sanitizers. pugixml/fmt/libstdc++ not modelled. Open findings listed in known_findings.json.'),
 'C20': dict(
   technique='Lean 4 proof over an emission model with an arbitrary fault schedule (k-th mkdir/open/write/close fails or writes short) + LD_PRELOAD shim failing EVERY k of every call family on the real sbeppc, byte comparison; determinism runs (ASLR, environment, fresh/populated/stale directory); source scan for nondeterminism sources',
   text='12 obligations: exit0_all_files_complete_partial, fault_gives_diag_partial (iff), rerun_idempotent, output_function_of_schema, no_nondeterminism_sources, hash_iterations_string_keyed; the full-strength statements are refuted by witnesses replayed on the real binary. 3.6k (quick) / 12.9k (thorough) single-fault runs, 100% of scheduled faults fired; impl compared with spec and model row by row.',
   note='PARTIAL by nature. Trusted: harness/iofault.c, the call-level model of basic_filebuf (fopen/write/writev/fclose confirmed by strace). libstdc++ mapping of failing write(2) to badbit and hash seeding are observed, not proved.'),
})
NOT_APPLICABLE = {}

ALL = ['C%02d' % i for i in range(1, 21)]

def main():
    checks = []
    for pid in ALL:
        if pid not in CHECKS:
            continue
        c = CHECKS[pid]
        checks.append({
            'property_id': pid,
            'quick_cmd': './check %s --tier quick' % pid,
            'thorough_cmd': './check %s --tier thorough' % pid,
            'evidence_file': '/verif/evidence/%s.json' % pid,
            'replay_cmd_template': './check %s --replay {path}' % pid,
            'engine': 'lean4-proof+correspondence',
            'level_claimed': {'category': c.get('category', 'proof'), 'text': c['text'], 'design_ref': 'DESIGN.md §7 ' + pid},
            'level_note': c['note'],
            'technique': c['technique'],
        })
    na = []
    for pid in ALL:
        if pid not in CHECKS:
            na.append({'property_id': pid, 'reason': NOT_APPLICABLE.get(pid, 'not yet built in this revision of /verif (work in progress; the Lean model does not cover it yet) - not a limit of the technique')})
    m = {
        'version': 1,
        'setup_cmd': './setup.sh',
        'hooks': {'guard': 'SBEPP_VERIF', 'enable': 'no source hooks are needed: harnesses include /repo headers directly and install their own assertion handler (SBEPP_ASSERT_HANDLER)', 'baseline_off_cmd': 'cmake --build /repo/_build && ctest --test-dir /repo/_build -j8 --timeout 900', 'source_commits': [], 'add_only': True},
        'engines': [{'name': 'lean4-proof+correspondence', 'path': '/verif/check', 'serves_properties': sorted(CHECKS), 'kind_free_text': 'Lean 4 theorems over a model regenerated (extract/) or hand-written and differentially tied (harness/, vlib/) to /repo on every run'}],
        'checks': checks,
        'not_applicable': na,
        'notes': 'See DESIGN.md. known_findings.json lists fixed/open findings.',
    }
    json.dump(m, open('/verif/MANIFEST.json', 'w'), indent=1)

if __name__ == '__main__':
    main()
