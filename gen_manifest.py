#!/usr/bin/env python3
"""Writes MANIFEST.json from the table below (kept in one place so that the
manifest stays valid while properties are added)."""
import json

CHECKS = {
 'C15': dict(
   technique='Lean 4 proof over kernels extracted from sbepp.hpp on every run + differential correspondence (C++ harness vs model vs spec)',
   text='Theorems get_bit_spec/set_bit_spec/set_then_get/set_bit_eq_spec: for all four underlying types, every value and every index inside the width, the extracted get/set kernels (C++ integer semantics incl. promotion and UB) compute exactly Nat.testBit / the single-bit update. The kernels are re-extracted from bitset_base on every run, so an edit to the shift/mask expressions breaks a proof obligation; the harness then searches for a failing input.',
   note='Trusted: Lean kernel, extract/cxx.py expression translator, CInt.lean encoding of C++ integer rules, the C++ harness. Generated choice accessors pass the index as a literal (checked by Layer G in C18/C01 when available). Constant evaluation not separately executed.'),
}
NOT_APPLICABLE = {}

ALL = ['C%02d' % i for i in range(1, 21)]

def main():
    checks = []
    for pid in ALL:
        if pid not in CHECKS:
            continue
        c = CHECKS[pid]
        checks.append({
            'property_id': pid,
            'quick_cmd': './check %s --tier quick' % pid,
            'thorough_cmd': './check %s --tier thorough' % pid,
            'evidence_file': '/verif/evidence/%s.json' % pid,
            'replay_cmd_template': './check %s --replay {path}' % pid,
            'engine': 'lean4-proof+correspondence',
            'level_claimed': {'category': c.get('category', 'proof'), 'text': c['text'], 'design_ref': 'DESIGN.md §7 ' + pid},
            'level_note': c['note'],
            'technique': c['technique'],
        })
    na = []
    for pid in ALL:
        if pid not in CHECKS:
            na.append({'property_id': pid, 'reason': NOT_APPLICABLE.get(pid, 'not yet built in this revision of /verif (work in progress; the Lean model does not cover it yet) - not a limit of the technique')})
    m = {
        'version': 1,
        'setup_cmd': './setup.sh',
        'hooks': {'guard': 'SBEPP_VERIF', 'enable': 'no source hooks are needed: harnesses include /repo headers directly and install their own assertion handler (SBEPP_ASSERT_HANDLER)', 'baseline_off_cmd': 'cmake --build /repo/_build && ctest --test-dir /repo/_build -j8 --timeout 900', 'source_commits': [], 'add_only': True},
        'engines': [{'name': 'lean4-proof+correspondence', 'path': '/verif/check', 'serves_properties': sorted(CHECKS), 'kind_free_text': 'Lean 4 theorems over a model regenerated (extract/) or hand-written and differentially tied (harness/, vlib/) to /repo on every run'}],
        'checks': checks,
        'not_applicable': na,
        'notes': 'See DESIGN.md. known_findings.json lists fixed/open findings.',
    }
    json.dump(m, open('/verif/MANIFEST.json', 'w'), indent=1)

if __name__ == '__main__':
    main()
